//# unit: c10_f64
//# crate: math
//# mount: math/src/field/f64/mod.rs
//# modpath: field::f64
//# props: C10
//! C10 — f64 (Goldilocks, Montgomery form): contracts on the linear operations, equality,
//! and representation invariants of every public operation, over the full machine domain.
//! Mounted as a child module of math/src/field/f64/mod.rs (private access to `M`, `equals`,
//! `mont_red_cst`, the tuple field).
#![allow(unused_imports, dead_code)]
use utils::{vcheck, vreach, verif_support as vs};

use super::*;

const MW: u128 = M as u128;

/// any canonical Montgomery residue (type invariant of BaseElement: inner < M)
fn any_elem() -> BaseElement {
    let a = vs::any_u64();
    vs::assume(a < M);
    BaseElement::from_mont(a)
}

// add: requires inv(a), inv(b); ensures inv(r) && r == (a + b) mod M   [complete]
//# harness: fn=f64 <BaseElement as Add>::add, AddAssign; label=complete; tier=quick
#[cfg_attr(kani, kani::proof)]
pub fn k_f64_add() {
    let (x, y) = (any_elem(), any_elem());
    let r = x + y;
    vcheck!("C10.f64.add.canonical", r.0 < M);
    vcheck!("C10.f64.add.value", r.0 as u128 == (x.0 as u128 + y.0 as u128) % MW);
    let mut z = x;
    z += y;
    vcheck!("C10.f64.add_assign.value", z.0 == r.0);
    vreach!("C10.f64.add.reach");
}

//# harness: fn=f64 <BaseElement as Sub>::sub, SubAssign; label=complete; tier=quick
#[cfg_attr(kani, kani::proof)]
pub fn k_f64_sub() {
    let (x, y) = (any_elem(), any_elem());
    let r = x - y;
    vcheck!("C10.f64.sub.canonical", r.0 < M);
    vcheck!("C10.f64.sub.value", r.0 as u128 == (x.0 as u128 + MW - y.0 as u128) % MW);
    let mut z = x;
    z -= y;
    vcheck!("C10.f64.sub_assign.value", z.0 == r.0);
    vreach!("C10.f64.sub.reach");
}

//# harness: fn=f64 <BaseElement as Neg>::neg; label=complete; tier=quick
#[cfg_attr(kani, kani::proof)]
pub fn k_f64_neg() {
    let x = any_elem();
    let r = -x;
    vcheck!("C10.f64.neg.canonical", r.0 < M);
    vcheck!("C10.f64.neg.value", r.0 as u128 == (MW - x.0 as u128) % MW);
    vreach!("C10.f64.neg.reach");
}

//# harness: fn=f64 FieldElement::double; label=complete; tier=quick
#[cfg_attr(kani, kani::proof)]
pub fn k_f64_double() {
    let x = any_elem();
    let r = x.double();
    vcheck!("C10.f64.double.canonical", r.0 < M);
    vcheck!("C10.f64.double.value", r.0 as u128 == (2 * x.0 as u128) % MW);
    vreach!("C10.f64.double.reach");
}

// eq: on canonical representations, == is equality of values; and `equals` is a proper mask
//# harness: fn=f64 PartialEq::eq, equals; label=complete; tier=quick
#[cfg_attr(kani, kani::proof)]
pub fn k_f64_eq() {
    let (x, y) = (any_elem(), any_elem());
    vcheck!("C10.f64.eq.iff", (x == y) == (x.0 == y.0));
    let (a, b) = (vs::any_u64(), vs::any_u64());
    let e = equals(a, b);
    vcheck!("C10.f64.equals.mask", e == if a == b { u64::MAX } else { 0 });
    vreach!("C10.f64.eq.reach");
}

// mul / square: the full contract (canonical result, r * 2^64 == a * b mod M) is proved in Verus
// (unit f64_core); SAT cannot decide 64x64-bit multiplications. Here only the glue: `*=` and
// `square` are literally `mul`.
//# harness: fn=f64 mont_red_cst, mont_to_int; label=complete; tier=quick
#[cfg_attr(kani, kani::proof)]
pub fn k_f64_mont_red_cst_range() {
    // precondition of Montgomery reduction: x < M * 2^64 (product of two canonical residues)
    let x = vs::any_u128();
    vs::assume(x < MW << 64);
    vcheck!("C10.f64.mont_red_cst.canonical", mont_red_cst(x) < M);
    let v = vs::any_u64();
    vcheck!("C10.f64.mont_to_int.canonical", mont_to_int(v) < M);
    vcheck!("C10.f64.mont_to_int.eq_red", mont_to_int(v) == mont_red_cst(v as u128));
    vreach!("C10.f64.mont_red_cst.reach");
}

//# harness: fn=f64 BaseElement::new; label=complete; tier=quick
#[cfg_attr(kani, kani::proof)]
pub fn k_f64_new_canonical() {
    let v = vs::any_u64();
    let e = BaseElement::new(v);
    vcheck!("C10.f64.new.canonical", e.0 < M);
    vreach!("C10.f64.new.reach");
}

//# harness: fn=f64 BaseElement::mul_small; label=complete; tier=quick
#[cfg_attr(kani, kani::proof)]
pub fn k_f64_mul_small() {
    let x = any_elem();
    let k = vs::any_u32();
    let r = x.mul_small(k);
    vcheck!("C10.f64.mul_small.canonical", r.0 < M);
    vreach!("C10.f64.mul_small.reach");
}

// mul_small value: r == a*k mod M on residues (a*k < 2^96: SAT can do this one, it is a
// multiplication by a 32-bit value followed by a linear reduction)
//# harness: fn=f64 BaseElement::mul_small; label=complete; tier=quick
#[cfg_attr(kani, kani::proof)]
pub fn k_f64_mul_small_value() {
    let x = any_elem();
    let k = vs::any_u32();
    let r = x.mul_small(k);
    vcheck!(
        "C10.f64.mul_small.value",
        (r.0 as u128) % MW == ((x.0 as u128) * (k as u128)) % MW
    );
}

//# harness: fn=f64 conjugate, base_element; label=complete; tier=quick
#[cfg_attr(kani, kani::proof)]
pub fn k_f64_conjugate_base() {
    let x = any_elem();
    vcheck!("C10.f64.conjugate.identity", x.conjugate().0 == x.0);
    vcheck!("C10.f64.base_element.0", x.base_element(0).0 == x.0);
}

// The constants the Verus unit f64_core assumes (axiom_zero) checked on the real code: ZERO = new(0) is the
// inner value 0; ONE = new(1) is 2^64 mod M = 2^32 - 1 (Montgomery form of 1). Concrete evaluation.
//# harness: fn=f64 FieldElement::ZERO, FieldElement::ONE; label=complete; tier=quick
#[cfg_attr(kani, kani::proof)]
pub fn k_f64_constants_zero_one() {
    vcheck!("C10.f64.constants.zero_one", BaseElement::ZERO.0 == 0 && BaseElement::ONE.0 == 0xFFFF_FFFF);
}

// quadratic Frobenius (conjugation phi -> 1 - phi of x^2 - x + 2): linear operations only, so the full
// 2^64 x 2^64 domain is decided bit-precisely, with a concrete counterexample when it fails (the Verus
// contract C10.f64.ext2.frobenius.contract states the same over the field values)
//# harness: fn=f64 <BaseElement as ExtensibleField<2>>::frobenius; label=complete; tier=quick
#[cfg_attr(kani, kani::proof)]
pub fn k_f64_ext2_frobenius() {
    let (a, b) = (any_elem(), any_elem());
    let r = <BaseElement as ExtensibleField<2>>::frobenius([a, b]);
    vcheck!("C10.f64.ext2.frobenius.canonical", r[0].0 < M && r[1].0 < M);
    vcheck!("C10.f64.ext2.frobenius.value", r[0].0 as u128 == (a.0 as u128 + b.0 as u128) % MW
        && (r[1].0 as u128 + b.0 as u128) % MW == 0);
    vreach!("C10.f64.ext2.frobenius.reach");
}
