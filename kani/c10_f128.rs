//# unit: c10_f128
//# crate: math
//# mount: math/src/field/f128/mod.rs
//# modpath: field::f128
//# props: C10 C11
//! C10 / C11 — f128 (canonical representation): add, sub, neg, new and equality are exact modular
//! arithmetic over the full 2^128 x 2^128 domain; decoders accept exactly the values below the
//! modulus. The 128-bit multiplication and inversion are NOT under contract (SAT cannot decide the
//! limb multiplications; Verus would need a dedicated limb-arithmetic proof).
#![allow(unused_imports, dead_code)]
use utils::{vcheck, vreach, verif_support as vs, SliceReader};

use super::*;

fn any_elem() -> BaseElement {
    let a = vs::any_u128();
    vs::assume(a < M);
    BaseElement(a)
}
/// (a + b) mod M without 129-bit arithmetic
fn add_mod(a: u128, b: u128) -> u128 {
    let (s, c) = a.overflowing_add(b);
    if c || s >= M { s.wrapping_sub(M) } else { s }
}

//# harness: fn=f128 add, sub, <BaseElement as Add/Sub/Neg>, BaseElement::new, PartialEq; label=complete; tier=quick
#[cfg_attr(kani, kani::proof)]
pub fn k_f128_linear() {
    let (x, y) = (any_elem(), any_elem());
    let s = x + y;
    vcheck!("C10.f128.add.canonical", s.0 < M);
    vcheck!("C10.f128.add.value", s.0 == add_mod(x.0, y.0));
    let d = x - y;
    vcheck!("C10.f128.sub.canonical", d.0 < M);
    vcheck!("C10.f128.sub.value", add_mod(d.0, y.0) == x.0);
    let n = -x;
    vcheck!("C10.f128.neg.value", n.0 < M && add_mod(n.0, x.0) == 0);
    let v = vs::any_u128();
    let e = BaseElement::new(v);
    vcheck!("C10.f128.new.reduces", e.0 < M && e.0 == if v < M { v } else { v - M });
    vcheck!("C10.f128.eq.iff_same_value", (x == y) == (x.0 == y.0));
    vcheck!("C10.f128.double.value", x.double().0 == add_mod(x.0, x.0));
    vreach!("C10.f128.linear.reach");
}

// The constant the Verus unit f128_core assumes (axiom_zero), checked on the real code. Concrete evaluation.
//# harness: fn=f128 FieldElement::ZERO, FieldElement::ONE; label=complete; tier=quick; props=C10
#[cfg_attr(kani, kani::proof)]
pub fn k_f128_constants_zero_one() {
    vcheck!("C10.f128.constants.zero_one", BaseElement::ZERO.0 == 0 && BaseElement::ONE.0 == 1);
}

//# harness: fn=f128 TryFrom<u128>, TryFrom<&[u8]>, Deserializable::read_from, from_random_bytes, write_into, as_int; label=complete (every slice length 0..=18); tier=quick; props=C11
#[cfg_attr(kani, kani::proof)]
#[cfg_attr(kani, kani::unwind(20))]
#[cfg_attr(kani, kani::stub(alloc::fmt::format, vs::fake_format))]
pub fn k_c11_f128_decoders() {
    let v = vs::any_u128();
    let r = BaseElement::try_from(v);
    vcheck!("C11.f128.try_from_u128.accept_iff_below_modulus", r.is_ok() == (v < M));
    if let Ok(e) = r {
        vcheck!("C11.f128.try_from_u128.value", e.0 == v && e.as_int() == v);
        let mut w = vs::ArrayWriter::<16>::new();
        e.write_into(&mut w);
        vcheck!("C11.f128.write_into.le_canonical", w.pos == 16 && w.buf == v.to_le_bytes());
    }
    let bytes: [u8; 18] = vs::any_bytes();
    let len = vs::any_usize();
    vs::assume(len <= 18);
    let mut b16 = [0u8; 16];
    b16.copy_from_slice(&bytes[..16]);
    let x = u128::from_le_bytes(b16);
    let r = BaseElement::try_from(&bytes[..len]);
    vcheck!("C11.f128.try_from_slice.accept_iff_16_bytes_below_modulus", r.is_ok() == (len == 16 && x < M));
    vcheck!("C11.f128.from_random_bytes.some_iff_valid", BaseElement::from_random_bytes(&bytes[..len]).is_some() == (len == 16 && x < M));
    let mut rd = SliceReader::new(&bytes[..len]);
    let r = BaseElement::read_from(&mut rd);
    vcheck!("C11.f128.read_from.accept_iff_below_modulus", r.is_ok() == (len >= 16 && x < M));
    vreach!("C11.f128.decoders.reach");
}

// Limb helpers of the 128-bit multiplication that are linear (no multiplication): decided bit-precisely over
// their full input space, with a concrete counterexample and native replay when they fail. (The Verus unit
// f128_core states the same contracts and uses them to prove `mul`; a rewritten helper body can lose the proof
// hints there - these harnesses do not depend on the body's shape.)
//# harness: fn=f128 add64_with_carry; label=complete; tier=quick
#[cfg_attr(kani, kani::proof)]
pub fn k_f128_add64_with_carry() {
    let (a, b, c) = (vs::any_u64(), vs::any_u64(), vs::any_u64());
    vs::assume(c <= 1);
    let (lo, hi) = add64_with_carry(a, b, c);
    vcheck!("C10.f128.add64_with_carry.exact", (lo as u128) + ((hi as u128) << 64) == (a as u128) + (b as u128) + (c as u128));
    vreach!("C10.f128.add64.reach");
}

//# harness: fn=f128 sub_modulus; label=complete; tier=quick
#[cfg_attr(kani, kani::proof)]
pub fn k_f128_sub_modulus() {
    let (lo, hi) = (vs::any_u64(), vs::any_u64());
    let (r0, r1) = sub_modulus(lo, hi);
    let v = (lo as u128) + ((hi as u128) << 64);
    // (v - M) mod 2^128
    vcheck!("C10.f128.sub_modulus.exact", (r0 as u128) + ((r1 as u128) << 64) == v.wrapping_sub(M));
    vreach!("C10.f128.sub_modulus.reach");
}

//# harness: fn=f128 sub_192x192; label=complete (minuend >= subtrahend as 192-bit values); tier=quick
#[cfg_attr(kani, kani::proof)]
pub fn k_f128_sub_192x192() {
    let (a0, a1, a2) = (vs::any_u64(), vs::any_u64(), vs::any_u64());
    let (b0, b1, b2) = (vs::any_u64(), vs::any_u64(), vs::any_u64());
    // a >= b as 192-bit little-endian limb vectors
    vs::assume(a2 > b2 || (a2 == b2 && (a1 > b1 || (a1 == b1 && a0 >= b0))));
    let (z0, z1, z2) = sub_192x192(a0, a1, a2, b0, b1, b2);
    // limb-wise reference subtraction with borrows
    let (d0, br0) = a0.overflowing_sub(b0);
    let (d1a, br1a) = a1.overflowing_sub(b1);
    let (d1, br1b) = d1a.overflowing_sub(br0 as u64);
    let d2 = a2.wrapping_sub(b2).wrapping_sub((br1a || br1b) as u64);
    vcheck!("C10.f128.sub_192x192.exact", z0 == d0 && z1 == d1 && z2 == d2);
    vreach!("C10.f128.sub192.reach");
}
