//# unit: c25_security
//# crate: air
//# mount: air/src/proof/security.rs
//# modpath: proof::security
//# props: C25
//! C25 — conjectured security is bounded by the hash's collision resistance and by the extension
//! field size, and is monotone in queries, grinding and extension degree (loop-free integer code:
//! complete over every constructor-accepted option value).
#![allow(unused_imports, dead_code)]
use utils::{vcheck, vreach, verif_support as vs};

use super::*;
use crate::FieldExtension;

fn ext(t: u8) -> FieldExtension {
    match t {
        0 => FieldExtension::None,
        1 => FieldExtension::Quadratic,
        _ => FieldExtension::Cubic,
    }
}
fn batching(t: u8) -> BatchingMethod {
    match t {
        0 => BatchingMethod::Linear,
        1 => BatchingMethod::Algebraic,
        _ => BatchingMethod::Horner,
    }
}

struct Params {
    nq: usize,
    blowup_log: u8,
    grinding: u32,
    ext: u8,
    fold_log: u8,
    rem_log: u8,
    b1: u8,
    b2: u8,
}
fn any_params() -> Params {
    let p = Params {
        nq: vs::any_usize(),
        blowup_log: vs::any_u8(),
        grinding: vs::any_u32(),
        ext: vs::any_u8(),
        fold_log: vs::any_u8(),
        rem_log: vs::any_u8(),
        b1: vs::any_u8(),
        b2: vs::any_u8(),
    };
    vs::assume(p.nq >= 1 && p.nq <= 255);
    vs::assume(p.blowup_log >= 1 && p.blowup_log <= 7);
    vs::assume(p.grinding <= 32);
    vs::assume(p.ext <= 2 && p.b1 <= 2 && p.b2 <= 2);
    vs::assume(p.fold_log >= 1 && p.fold_log <= 4);
    vs::assume(p.rem_log <= 8);
    p
}
fn options(p: &Params) -> ProofOptions {
    ProofOptions::new(
        p.nq,
        1usize << p.blowup_log,
        p.grinding,
        ext(p.ext),
        1usize << p.fold_log,
        (1usize << p.rem_log) - 1,
        batching(p.b1),
        batching(p.b2),
    )
}

//# harness: fn=ConjecturedSecurity::compute, bits, is_at_least; label=complete; tier=quick; uses=any_params,options
#[cfg_attr(kani, kani::proof)]
pub fn k_c25_conjectured_bounds() {
    let p = any_params();
    let o = options(&p);
    let field_bits = vs::any_u32();
    // a decoded context reports between 1 and 255 * 8 modulus bits (zero is rejected by the decoder)
    vs::assume(field_bits >= 1 && field_bits <= 2040);
    let cr = vs::any_u32();
    let s = ConjecturedSecurity::compute(&o, field_bits, cr);
    vcheck!("C25.conjectured.le_collision_resistance", s.bits() <= cr);
    vcheck!("C25.conjectured.below_extension_field_size", s.bits() < field_bits * o.field_extension().degree());
    let m = vs::any_u32();
    vcheck!("C25.conjectured.is_at_least", s.is_at_least(m) == (s.bits() >= m));
    vreach!("C25.conjectured.reach");
}

//# harness: fn=ConjecturedSecurity::compute (monotonicity, two-call relational contract); label=complete; tier=quick; uses=any_params,options
#[cfg_attr(kani, kani::proof)]
pub fn k_c25_conjectured_monotone() {
    let p = any_params();
    let mut q = Params { ..any_params() };
    // q differs from p only by growing the number of queries, the grinding factor or the extension degree
    q.blowup_log = p.blowup_log;
    q.fold_log = p.fold_log;
    q.rem_log = p.rem_log;
    q.b1 = p.b1;
    q.b2 = p.b2;
    vs::assume(q.nq >= p.nq && q.grinding >= p.grinding && q.ext >= p.ext);
    let field_bits = vs::any_u32();
    vs::assume(field_bits >= 1 && field_bits <= 2040);
    let cr = vs::any_u32();
    let a = ConjecturedSecurity::compute(&options(&p), field_bits, cr);
    let b = ConjecturedSecurity::compute(&options(&q), field_bits, cr);
    vcheck!("C25.conjectured.monotone", b.bits() >= a.bits());
    vreach!("C25.monotone.reach");
}

//# harness: fn=ProvenSecurity::is_at_least, ldr_bits, udr_bits; label=complete; tier=quick
#[cfg_attr(kani, kani::proof)]
pub fn k_c25_proven_is_at_least() {
    let s = ProvenSecurity { unique_decoding: vs::any_u32(), list_decoding: vs::any_u32() };
    let m = vs::any_u32();
    vcheck!("C25.proven.is_at_least", s.is_at_least(m) == (core::cmp::max(s.ldr_bits(), s.udr_bits()) >= m));
}
