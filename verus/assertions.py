"""Verus unit: Assertion::{is_single, is_periodic, is_sequence, overlaps_with, validate_trace_length}
(real text) — overlap detection is exact for every trace length; validation accepts exactly the
lengths the assertion fits."""

F = "air/src/air/assertions/mod.rs"

PRELUDE = r'''
use vstd::arithmetic::div_mod::*;
use vstd::arithmetic::mul::*;

// reduced declarations of items the extracted code names but does not depend on
pub trait FieldElement: Sized {}
pub enum AssertionError {
    TraceWidthTooShort(usize, usize),
    TraceLengthNotPowerOfTwo(usize),
    TraceLengthTooShort(usize, usize),
    TraceLengthNotExact(usize, usize),
}

pub open spec fn is_pow2(n: int) -> bool
    decreases n
{
    if n <= 0 { false } else if n == 1 { true } else { n % 2 == 0 && is_pow2(n / 2) }
}

pub assume_specification[ usize::is_power_of_two ](a: usize) -> (r: bool)
    ensures r == is_pow2(a as int);
pub assume_specification[ usize::next_power_of_two ](a: usize) -> (r: usize);

// smaller power of two divides larger power of two
proof fn lemma_pow2_divides(a: int, b: int)
    requires is_pow2(a), is_pow2(b), a <= b,
    ensures b % a == 0,
    decreases b
{
    if a == b {
        lemma_mod_self_0(a);
    } else {
        assert(b > 1);
        assert(b % 2 == 0 && is_pow2(b / 2));
        if a > b / 2 {
            lemma_pow2_gap(a, b / 2);
        }
        lemma_pow2_divides(a, b / 2);
        let h = b / 2;
        assert(b == 2 * h);
        lemma_fundamental_div_mod(h, a);
        let k = h / a;
        assert(h == a * k);
        assert(b == a * (2 * k)) by (nonlinear_arith) requires b == 2 * h, h == a * k;
        lemma_mod_multiples_basic(2 * k, a);
        assert((2 * k) * a == a * (2 * k)) by (nonlinear_arith);
    }
}
// no power of two strictly between h and 2h
proof fn lemma_pow2_gap(a: int, h: int)
    requires is_pow2(a), is_pow2(h), h < a, a < 2 * h,
    ensures false,
    decreases h
{
    if h == 1 {
    } else {
        assert(a > 1);
        assert(a % 2 == 0 && is_pow2(a / 2));
        assert(h % 2 == 0 && is_pow2(h / 2));
        lemma_pow2_gap(a / 2, h / 2);
    }
}
proof fn lemma_mod_trans(x: int, b: int, a: int)
    requires a > 0, b > 0, x % b == 0, b % a == 0,
    ensures x % a == 0,
{
    lemma_fundamental_div_mod(x, b);
    lemma_fundamental_div_mod(b, a);
    let k = x / b; let j = b / a;
    assert(x == a * (j * k)) by (nonlinear_arith) requires x == b * k, b == a * j;
    lemma_mod_multiples_basic(j * k, a);
    assert((j * k) * a == a * (j * k)) by (nonlinear_arith);
}
proof fn lemma_diff_mod(x: int, y: int, m: int)
    requires m > 0, x % m == 0, y % m == 0,
    ensures (x - y) % m == 0,
{
    lemma_sub_mod_noop(x, y, m);
    lemma_small_mod(0nat, m as nat);
}
proof fn lemma_small_nonzero(d: int, m: int)
    requires 0 < d < m,
    ensures d % m != 0,
{
    lemma_small_mod(d as nat, m as nat);
}
'''

SPECS = r'''
impl<E: FieldElement> Assertion<E> {
    // type invariant established by the constructors single / periodic / sequence
    pub open spec fn wf(&self) -> bool {
        &&& self.values.len() >= 1
        &&& (self.stride == 0 ==> self.values.len() == 1)
        &&& (self.stride != 0 ==> is_pow2(self.stride as int) && self.stride >= 2 && self.first_step < self.stride)
    }
    // the documented step set: {first} / {first + stride * i | i < n / stride} / {first + stride * i | i < len}
    pub open spec fn covers(&self, n: int, s: int) -> bool {
        if self.stride == 0 { s == self.first_step }
        else { 0 <= s < n && s >= self.first_step && (s - self.first_step) % (self.stride as int) == 0 }
    }
    // the documented fit predicate
    pub open spec fn fits(&self, n: int) -> bool {
        &&& is_pow2(n)
        &&& (self.stride == 0 ==> self.first_step < n)
        &&& (self.stride != 0 && self.values.len() == 1 ==> self.stride <= n)
        &&& (self.values.len() > 1 ==> self.values.len() * self.stride == n)
    }
    pub open spec fn common(&self, other: &Assertion<E>, n: int) -> bool {
        exists|s: int| self.covers(n, s) && other.covers(n, s)
    }
    // closed form of "a common step exists" (a lemma below proves it equivalent to `common`)
    pub open spec fn closed(&self, o: &Assertion<E>) -> bool {
        if self.first_step == o.first_step { true }
        else if self.stride == o.stride { false }
        else if self.first_step < o.first_step {
            self.stride != 0 && (o.stride == 0 || self.stride < o.stride)
                && (o.first_step - self.first_step) % (self.stride as int) == 0
        } else {
            o.stride != 0 && (self.stride == 0 || o.stride < self.stride)
                && (self.first_step - o.first_step) % (o.stride as int) == 0
        }
    }

    proof fn lemma_in_range(&self, n: int)
        requires self.wf(), self.fits(n),
        ensures self.first_step < n, self.stride != 0 ==> self.stride <= n,
    {
        if self.stride != 0 && self.values.len() > 1 {
            assert(self.stride as int <= self.values.len() * self.stride) by (nonlinear_arith)
                requires self.values.len() >= 1, self.stride >= 0;
        }
    }
    proof fn lemma_first_covered(&self, n: int)
        requires self.wf(), self.fits(n),
        ensures self.covers(n, self.first_step as int),
    {
        self.lemma_in_range(n);
        if self.stride != 0 { lemma_small_mod(0nat, self.stride as nat); }
    }
    proof fn lemma_strided(&self, other: &Assertion<E>, n: int)
        requires self.wf(), other.wf(), self.fits(n), other.fits(n),
                 self.stride != 0, other.stride != 0, self.first_step < other.first_step,
        ensures
            self.stride < other.stride ==> (self.common(other, n) <==> (other.first_step - self.first_step) % (self.stride as int) == 0),
            self.stride >= other.stride ==> !self.common(other, n),
    {
        let fa = self.first_step as int; let fb = other.first_step as int;
        let sa = self.stride as int; let sb = other.stride as int;
        self.lemma_in_range(n); other.lemma_in_range(n);
        if sa < sb {
            lemma_pow2_divides(sa, sb);
            if (fb - fa) % sa == 0 {
                other.lemma_first_covered(n);
                assert(self.covers(n, fb));
            }
            assert forall|s: int| self.covers(n, s) && other.covers(n, s) implies (fb - fa) % sa == 0 by {
                lemma_mod_trans(s - fb, sb, sa);
                lemma_diff_mod(s - fa, s - fb, sa);
            }
        } else {
            lemma_pow2_divides(sb, sa);
            assert forall|s: int| self.covers(n, s) && other.covers(n, s) implies false by {
                lemma_mod_trans(s - fa, sa, sb);
                lemma_diff_mod(s - fa, s - fb, sb);
                lemma_small_nonzero(fb - fa, sb);
            }
        }
    }
    // one direction of the case analysis: self starts strictly before other
    proof fn lemma_closed_lt(&self, o: &Assertion<E>, n: int)
        requires self.wf(), o.wf(), self.fits(n), o.fits(n), self.first_step < o.first_step, self.stride != o.stride,
        ensures self.common(o, n) <==> self.closed(o),
    {
        if self.stride == 0 {
            assert(!self.common(o, n));
        } else if o.stride == 0 {
            o.lemma_in_range(n);
            if (o.first_step - self.first_step) % (self.stride as int) == 0 {
                assert(self.covers(n, o.first_step as int) && o.covers(n, o.first_step as int));
            }
        } else {
            self.lemma_strided(o, n);
        }
    }
    pub proof fn lemma_closed_form(&self, o: &Assertion<E>)
        requires self.wf(), o.wf(),
        ensures forall|n: int| #![trigger self.fits(n), o.fits(n)] self.fits(n) && o.fits(n) ==> (self.common(o, n) <==> self.closed(o)),
    {
        assert forall|n: int| #![trigger self.fits(n), o.fits(n)] self.fits(n) && o.fits(n) implies (self.common(o, n) <==> self.closed(o)) by {
            if self.first_step == o.first_step {
                self.lemma_first_covered(n); o.lemma_first_covered(n);
            } else if self.stride == o.stride {
                if self.stride != 0 {
                    let st = self.stride as int;
                    assert forall|s: int| self.covers(n, s) && o.covers(n, s) implies false by {
                        if self.first_step < o.first_step {
                            lemma_diff_mod(s - self.first_step, s - o.first_step, st);
                            lemma_small_nonzero(o.first_step - self.first_step, st);
                        } else {
                            lemma_diff_mod(s - o.first_step, s - self.first_step, st);
                            lemma_small_nonzero(self.first_step - o.first_step, st);
                        }
                    }
                }
            } else if self.first_step < o.first_step {
                self.lemma_closed_lt(o, n);
            } else {
                o.lemma_closed_lt(self, n);
                assert(o.common(self, n) <==> self.common(o, n));
            }
        }
    }
}
'''

UNIT = {
    "name": "assertions",
    "props": ["C21"],
    "prelude": PRELUDE,
    "items": [
        {"kind": "const", "file": F, "name": "NO_STRIDE", "pub": True},
        {"kind": "struct", "file": F, "name": "Assertion", "replace": [("pub(super)", "pub")], "after": SPECS},
        {"kind": "impl", "file": F, "header": "impl<E: FieldElement> Assertion<E>", "methods": [
            {"name": "is_single", "ret": "r", "fnlabel": "Assertion::is_single", "ob": "C21.is_single.contract",
             "spec": "ensures r == (self.stride == 0),"},
            {"name": "is_periodic", "ret": "r", "fnlabel": "Assertion::is_periodic", "ob": "C21.is_periodic.contract",
             "spec": "ensures r == (self.stride != 0 && self.values.len() == 1),"},
            {"name": "is_sequence", "ret": "r", "fnlabel": "Assertion::is_sequence", "ob": "C21.is_sequence.contract",
             "spec": "ensures r == (self.values.len() > 1),"},
            {"name": "overlaps_with", "ret": "r", "fnlabel": "Assertion::overlaps_with", "ob": "C21.overlap.iff_common_cell",
             "spec": "requires self.wf(), other.wf(),\n"
                     "ensures forall|n: int| #![trigger self.fits(n), other.fits(n)] self.fits(n) && other.fits(n) ==>\n"
                     "    (r <==> (self.column == other.column && self.common(other, n))),",
             "ghost": [{"at": "start", "text": "proof { self.lemma_closed_form(other); }"}]},
            {"name": "validate_trace_length", "ret": "r", "fnlabel": "Assertion::validate_trace_length",
             "ob": "C21.validate_trace_length.iff_fits",
             "spec": "requires self.wf(), self.first_step < usize::MAX, self.values.len() * self.stride <= usize::MAX,\n"
                     "ensures r.is_ok() <==> self.fits(trace_length as int),"},
        ]},
    ],
    "epilogue": "",
    "theorems": {"lemma_closed_form": "C21.overlap.closed_form_lemma"},
    "assumptions": [
        "Assertion<E> values are only counted (values.len()), so the proof is parametric in E",
        "usize::is_power_of_two specified by assume_specification as the recursive definition is_pow2 "
        "(cross-checked by Kani harness k_c21_is_power_of_two_spec)",
    ],
}
