//# unit: c16_rp64
//# crate: crypto
//# mount: crypto/src/hash/rescue/rp64_256/mod.rs
//# modpath: hash::rescue::rp64_256
//# props: C16 C17
//! C16 / C17 — Rp64_256 sponge rules, with `apply_permutation` replaced by a recorder (absorption,
//! padding and capacity initialisation do not depend on the permutation): capacity word, 7-byte
//! chunking with the single padding byte on the last chunk, rate-block boundaries, merge ==
//! hash_elements of the eight elements, merge_with_int split at the modulus; and the injectivity of
//! the absorbed encoding for inputs that differ only in length / trailing zeros (C17).
#![allow(unused_imports, dead_code, static_mut_refs)]
use alloc::vec::Vec;

use utils::{vcheck, vreach, verif_support as vs};

use super::*;

const ZERO_STATE: [BaseElement; STATE_WIDTH] = [BaseElement::ZERO; STATE_WIDTH];
static mut PERM_CALLS: usize = 0;
static mut SNAP: [[BaseElement; STATE_WIDTH]; 3] = [ZERO_STATE; 3];

/// stands for the permutation: records the state it is applied to and leaves it unchanged
fn rec_perm(state: &mut [BaseElement; STATE_WIDTH]) {
    unsafe {
        if PERM_CALLS < 3 {
            SNAP[PERM_CALLS] = *state;
        }
        PERM_CALLS += 1;
    }
}
/// stands for f64 `BaseElement::new` in the byte/integer absorbing harnesses: an injective tag of
/// the argument, so that "chunk j is absorbed as new(le64(chunk))" is checked without asking SAT to
/// multiply (the contract of `new` itself is the Verus unit f64_core)
fn stub_new(value: u64) -> BaseElement {
    // the tag must be a canonical residue (< M), otherwise the real field addition misbehaves
    BaseElement::from_mont((value.rotate_left(17) ^ 0x5bd1_e995_9e37_79b9) >> 1)
}
fn reset() {
    unsafe {
        PERM_CALLS = 0;
    }
}
fn calls() -> usize {
    unsafe { PERM_CALLS }
}
fn snap(k: usize) -> [BaseElement; STATE_WIDTH] {
    unsafe { SNAP[k] }
}
fn any_elem() -> BaseElement {
    let a = vs::any_u64();
    vs::assume(a < 0xffffffff00000001);
    BaseElement::from_mont(a)
}
fn any_digest() -> ElementDigest {
    ElementDigest::new([any_elem(), any_elem(), any_elem(), any_elem()])
}
fn same(a: &[BaseElement; STATE_WIDTH], b: &[BaseElement; STATE_WIDTH]) -> bool {
    let mut ok = true;
    let mut i = 0;
    while i < STATE_WIDTH {
        ok = ok && a[i].inner() == b[i].inner();
        i += 1;
    }
    ok
}

//# harness: fn=Rp64_256::merge, merge_with_int, hash_elements (8 elements); label=complete in digests and integer (one rate block); tier=quick; replay=no; timeout=400
#[cfg_attr(kani, kani::proof)]
#[cfg_attr(kani, kani::unwind(14))]
#[cfg_attr(kani, kani::stub(Rp64_256::apply_permutation, rec_perm))]
#[cfg_attr(kani, kani::stub(winter_math::fields::f64::BaseElement::new, stub_new))]
pub fn k_c16_rp64_merge_rules() {
    let (a, b) = (any_digest(), any_digest());
    reset();
    let d = Rp64_256::merge(&[a, b]);
    let (ae, be) = (a.as_elements(), b.as_elements());
    let mut want = ZERO_STATE;
    want[0] = BaseElement::new(8);
    want[4..8].copy_from_slice(ae);
    want[8..12].copy_from_slice(be);
    vcheck!("C16.rp64.merge.state", calls() == 1 && same(&snap(0), &want));
    vcheck!("C16.rp64.merge.digest_is_rate_words_4_to_8", d.as_elements()[0].inner() == ae[0].inner() && d.as_elements()[3].inner() == ae[3].inner());
    // merging two digests equals hashing their eight elements
    reset();
    let els = [ae[0], ae[1], ae[2], ae[3], be[0], be[1], be[2], be[3]];
    let _ = Rp64_256::hash_elements(&els);
    vcheck!("C16.rp64.merge_equals_hash_elements_of_8", calls() == 1 && same(&snap(0), &want));

    // merge_with_int: one element below the modulus, two elements (value mod p, value / p) otherwise
    reset();
    let v = vs::any_u64();
    let _ = Rp64_256::merge_with_int(a, v);
    let s = snap(0);
    let m = 0xffffffff00000001u64;
    vcheck!("C16.rp64.merge_with_int.seed_in_first_half", calls() == 1 && s[4].inner() == ae[0].inner() && s[7].inner() == ae[3].inner());
    vcheck!("C16.rp64.merge_with_int.value_word", s[8].inner() == BaseElement::new(v).inner());
    vcheck!("C16.rp64.merge_with_int.split_at_modulus",
        if v < m { s[9].inner() == 0 && s[0].inner() == BaseElement::new(5).inner() }
        else { s[9].inner() == BaseElement::new(v / m).inner() && s[0].inner() == BaseElement::new(6).inner() });
    vcheck!("C16.rp64.merge_with_int.rest_zero", s[1].inner() == 0 && s[2].inner() == 0 && s[3].inner() == 0 && s[10].inner() == 0 && s[11].inner() == 0);
    // C17: x < p and x + k*p (k >= 1) are separated by the capacity word: it is new(5) exactly for the integers
    // below the modulus and new(6) exactly for those at or above it, and the two words differ
    vcheck!("C17.rp64.merge_with_int.separates_congruent_integers",
        BaseElement::new(5).inner() != BaseElement::new(6).inner()
            && (v < m) == (s[0].inner() == BaseElement::new(5).inner())
            && (v >= m) == (s[0].inner() == BaseElement::new(6).inner()));
    vreach!("C16.rp64.merge.reach");
}

/// hash_elements on N symbolic elements: capacity = N, element j is added to rate word j mod 8,
/// one permutation per full block plus one for a partial block
fn hash_elements_rule<const N: usize>() {
    let mut els = [BaseElement::ZERO; N];
    let mut i = 0;
    while i < N {
        els[i] = any_elem();
        i += 1;
    }
    reset();
    let _ = Rp64_256::hash_elements(&els);
    let blocks = (N + 7) / 8;
    vcheck!("C16.rp64.hash_elements.permutation_count", calls() == blocks);
    let mut want = ZERO_STATE;
    want[0] = BaseElement::new(N as u64);
    let mut b = 0;
    while b < blocks {
        let mut j = 0;
        while j < 8 && b * 8 + j < N {
            want[4 + j] += els[b * 8 + j];
            j += 1;
        }
        vcheck!("C16.rp64.hash_elements.absorbed_block", same(&snap(b), &want));
        b += 1;
    }
}

//# harness: fn=Rp64_256::hash_elements; label=bounded(0, 1, 8 and 9 elements; every element value); tier=quick; replay=no; uses=hash_elements_rule; timeout=600
#[cfg_attr(kani, kani::proof)]
#[cfg_attr(kani, kani::unwind(14))]
#[cfg_attr(kani, kani::stub(Rp64_256::apply_permutation, rec_perm))]
#[cfg_attr(kani, kani::stub(winter_math::fields::f64::BaseElement::new, stub_new))]
pub fn k_c16_rp64_hash_elements() {
    hash_elements_rule::<0>();
    hash_elements_rule::<1>();
    hash_elements_rule::<8>();
    hash_elements_rule::<9>();
    vreach!("C16.rp64.hash_elements.reach");
}

/// hash on L symbolic bytes: capacity = number of 7-byte chunks, chunk j is absorbed as the
/// little-endian integer of its bytes, the last chunk followed by a single 1 byte
fn hash_bytes_rule<const L: usize>() {
    let bytes: [u8; L] = vs::any_bytes();
    reset();
    let _ = Rp64_256::hash(&bytes);
    let n = (L + 6) / 7;
    let blocks = (n + 7) / 8;
    vcheck!("C16.rp64.hash.permutation_count", calls() == blocks);
    let mut want = ZERO_STATE;
    want[0] = BaseElement::new(n as u64);
    let mut b = 0;
    while b < blocks {
        let mut j = 0;
        while j < 8 && b * 8 + j < n {
            let c = b * 8 + j;
            let mut buf = [0u8; 8];
            let len = if c == n - 1 { L - 7 * c } else { 7 };
            buf[..len].copy_from_slice(&bytes[7 * c..7 * c + len]);
            if c == n - 1 {
                buf[len] = 1;
            }
            want[4 + j] += BaseElement::new(u64::from_le_bytes(buf));
            j += 1;
        }
        vcheck!("C16.rp64.hash.absorbed_block", same(&snap(b), &want));
        b += 1;
    }
}

//# harness: fn=Rp64_256::hash (one rate block); label=bounded(0, 1, 7, 8 and 20 bytes; every byte value); tier=quick; replay=no; uses=hash_bytes_rule; timeout=600
#[cfg_attr(kani, kani::proof)]
#[cfg_attr(kani, kani::unwind(14))]
#[cfg_attr(kani, kani::stub(Rp64_256::apply_permutation, rec_perm))]
#[cfg_attr(kani, kani::stub(winter_math::fields::f64::BaseElement::new, stub_new))]
pub fn k_c16_rp64_hash_bytes_one_block() {
    hash_bytes_rule::<0>();
    hash_bytes_rule::<1>();
    hash_bytes_rule::<7>();
    hash_bytes_rule::<8>();
    hash_bytes_rule::<20>();
    vreach!("C16.rp64.hash1.reach");
}

//# harness: fn=Rp64_256::hash (crossing the 56-byte rate block); label=bounded(56, 57 and 63 bytes; every byte value); tier=quick; replay=no; uses=hash_bytes_rule; timeout=900
#[cfg_attr(kani, kani::proof)]
#[cfg_attr(kani, kani::unwind(14))]
#[cfg_attr(kani, kani::stub(Rp64_256::apply_permutation, rec_perm))]
#[cfg_attr(kani, kani::stub(winter_math::fields::f64::BaseElement::new, stub_new))]
pub fn k_c16_rp64_hash_bytes_two_blocks() {
    hash_bytes_rule::<56>();
    hash_bytes_rule::<57>();
    hash_bytes_rule::<63>();
    vreach!("C16.rp64.hash2.reach");
}

//# harness: fn=Rp64_256::hash, hash_elements (C17: injective absorbed encoding); label=bounded(byte strings of length 6 vs 7 and 7 vs 8 that are zero-extensions of each other; element lists 1 vs 2 with a trailing zero); tier=quick; replay=no; timeout=600
#[cfg_attr(kani, kani::proof)]
#[cfg_attr(kani, kani::unwind(14))]
#[cfg_attr(kani, kani::stub(Rp64_256::apply_permutation, rec_perm))]
#[cfg_attr(kani, kani::stub(winter_math::fields::f64::BaseElement::new, stub_new))]
pub fn k_c17_rp64_length_separation() {
    // x and x || 0 (same chunk): the padding byte moves
    let x: [u8; 6] = vs::any_bytes();
    let mut x0 = [0u8; 7];
    x0[..6].copy_from_slice(&x);
    reset();
    let _ = Rp64_256::hash(&x);
    let s1 = snap(0);
    reset();
    let _ = Rp64_256::hash(&x0);
    let s2 = snap(0);
    vcheck!("C17.rp64.hash.trailing_zero_byte_separated", !same(&s1, &s2));
    // x (7 bytes) and x || 0 (8 bytes: a new chunk): the chunk count in the capacity differs
    let mut x00 = [0u8; 8];
    x00[..7].copy_from_slice(&x0);
    reset();
    let _ = Rp64_256::hash(&x00);
    let s3 = snap(0);
    vcheck!("C17.rp64.hash.chunk_boundary_separated", !same(&s2, &s3));
    // element lists [e] and [e, 0]
    let e = any_elem();
    reset();
    let _ = Rp64_256::hash_elements(&[e]);
    let t1 = snap(0);
    reset();
    let _ = Rp64_256::hash_elements(&[e, BaseElement::ZERO]);
    let t2 = snap(0);
    vcheck!("C17.rp64.hash_elements.trailing_zero_element_separated", !same(&t1, &t2));
    vreach!("C17.rp64.reach");
}

// `mds_multiply` can return a word in [p, 2^64) (right residue class, not the canonical representative; witness in
// unit c16_mds). In the permutation every MDS step is followed by `add_constants`: for EVERY 64-bit word and every
// round constant the field addition returns the canonical representative of the sum, so the non-canonical words
// never leave `apply_round`.
//# harness: fn=Rp64_256::add_constants after apply_mds (f64 add with an arbitrary 64-bit left operand, every round constant); label=complete (every u64 word, every entry of ARK1 and ARK2); tier=quick; props=C16; timeout=600
#[cfg_attr(kani, kani::proof)]
#[cfg_attr(kani, kani::unwind(14))]
pub fn k_c16_rp64_add_constants_canonicalises() {
    let a = vs::any_u64();
    let (i, j) = (vs::any_usize(), vs::any_usize());
    vs::assume(i < NUM_ROUNDS && j < STATE_WIDTH);
    let m = 0xffffffff00000001u128;
    let r1 = BaseElement::from_mont(a) + ARK1[i][j];
    let r2 = BaseElement::from_mont(a) + ARK2[i][j];
    vcheck!("C16.rp64.add_constants.canonicalises_any_mds_output",
        (r1.inner() as u128) < m && (r1.inner() as u128) == (a as u128 + ARK1[i][j].inner() as u128) % m
            && (r2.inner() as u128) < m && (r2.inner() as u128) == (a as u128 + ARK2[i][j].inner() as u128) % m);
    vreach!("C16.rp64.add_constants.reach");
}
