use vstd::prelude::*;
use vstd::arithmetic::div_mod::*;
use vstd::std_specs::ops::*;
verus! {
pub open spec fn P() -> int { 4611624995532046337 }

pub struct BaseElement(pub u64);
impl Copy for BaseElement {}
impl Clone for BaseElement { fn clone(&self) -> Self { *self } }

// abstract value of an element (defined in the f62_core unit as x.0 * R^-1 mod P); here opaque
pub uninterp spec fn val(x: BaseElement) -> int;
pub open spec fn inv62(x: BaseElement) -> bool { x.0 < 2 * 4611624995532046337u64 }

impl AddSpecImpl<BaseElement> for BaseElement {
    open spec fn obeys_add_spec() -> bool { false }
    open spec fn add_req(self, rhs: BaseElement) -> bool { inv62(self) && inv62(rhs) }
    open spec fn add_spec(self, rhs: BaseElement) -> BaseElement { arbitrary() }
}
impl SubSpecImpl<BaseElement> for BaseElement {
    open spec fn obeys_sub_spec() -> bool { false }
    open spec fn sub_req(self, rhs: BaseElement) -> bool { inv62(self) && inv62(rhs) }
    open spec fn sub_spec(self, rhs: BaseElement) -> BaseElement { arbitrary() }
}
impl MulSpecImpl<BaseElement> for BaseElement {
    open spec fn obeys_mul_spec() -> bool { false }
    open spec fn mul_req(self, rhs: BaseElement) -> bool { inv62(self) && inv62(rhs) }
    open spec fn mul_spec(self, rhs: BaseElement) -> BaseElement { arbitrary() }
}
// contracts of the base operations (proved in the f62_core unit); bodies not needed here
impl core::ops::Add for BaseElement {
    type Output = Self;
    #[verifier::external_body]
    fn add(self, rhs: Self) -> (r: Self)
        ensures inv62(r), 0 <= val(r) < P(), val(r) == (val(self) + val(rhs)) % P(),
    { unimplemented!() }
}
impl core::ops::Sub for BaseElement {
    type Output = Self;
    #[verifier::external_body]
    fn sub(self, rhs: Self) -> (r: Self)
        ensures inv62(r), 0 <= val(r) < P(), val(r) == (val(self) - val(rhs)) % P(),
    { unimplemented!() }
}
impl core::ops::Mul for BaseElement {
    type Output = Self;
    #[verifier::external_body]
    fn mul(self, rhs: Self) -> (r: Self)
        ensures inv62(r), 0 <= val(r) < P(), val(r) == (val(self) * val(rhs)) % P(),
    { unimplemented!() }
}

// real text of `impl ExtensibleField<2> for BaseElement { fn mul }` (f62), as a free function
fn mul(a: [BaseElement; 2], b: [BaseElement; 2]) -> (r: [BaseElement; 2])
    requires inv62(a[0]), inv62(a[1]), inv62(b[0]), inv62(b[1]),
    ensures
        // (a0 + a1 φ)(b0 + b1 φ) with φ^2 = φ + 1
        val(r[0]) == (val(a[0]) * val(b[0]) + val(a[1]) * val(b[1])) % P(),
        val(r[1]) == (val(a[0]) * val(b[1]) + val(a[1]) * val(b[0]) + val(a[1]) * val(b[1])) % P(),
{
    let z = a[0] * b[0];
    proof {
        let (a0, a1, b0, b1) = (val(a[0]), val(a[1]), val(b[0]), val(b[1]));
        lemma_add_mod_noop(a0 * b0, a1 * b1, P());
        lemma_mul_mod_noop(a0 + a1, b0 + b1, P());
        lemma_sub_mod_noop((a0 + a1) * (b0 + b1), a0 * b0, P());
        assert((a0 + a1) * (b0 + b1) - a0 * b0 == a0 * b1 + a1 * b0 + a1 * b1) by (nonlinear_arith);
    }
    [z + a[1] * b[1], (a[0] + a[1]) * (b[0] + b[1]) - z]
}
}
fn main(){}
