use vstd::prelude::*;
verus! {
const M: u64 = 4611624995532046337;
const U: u128 = 4611624995532046335;

pub open spec fn R() -> int { 0x1_0000_0000_0000_0000 }
pub open spec fn P() -> int { 4611624995532046337 }

// (zl + q*M) is a multiple of 2^64 when q = zl*U mod 2^64  (U = -M^{-1} mod 2^64)
proof fn lemma_mont_q(zl: u64, q: u64)
    requires q == ((zl as u128 * U) as u64),
    ensures (zl as int + q as int * P()) % R() == 0
{
    assert(zl.wrapping_add(q.wrapping_mul(M)) == 0u64) by (bit_vector)
        requires q == ((zl as u128 * U) as u64);
    // wrapping_mul / wrapping_add specs are modular
    let qm = q as int * P();
    assert(q.wrapping_mul(M) as int == qm % R()) by {
        assert(q as int * M as int == qm);
    }
    let w = q.wrapping_mul(M) as int;
    assert(zl.wrapping_add(q.wrapping_mul(M)) as int == (zl as int + w) % R());
    assert((zl as int + qm) % R() == 0) by {
        vstd::arithmetic::div_mod::lemma_add_mod_noop_right(zl as int, qm, R());
    }
}

// pure integer lemma: the reduction step
proof fn lemma_mont_step(z0: int, q: int, r: int)
    requires
        0 <= z0 <= 9223249991064092674 * 9223249991064092674,
        0 <= q < R(),
        (z0 + q * P()) % R() == 0,
        r == (z0 + q * P()) / R(),
    ensures
        0 <= r < 2 * P(),
        (r * R()) % P() == z0 % P(),
{
    let t = z0 + q * P();
    assert(t == r * R()) by {
        vstd::arithmetic::div_mod::lemma_fundamental_div_mod(t, R());
    }
    assert(q * P() <= (R() - 1) * P()) by (nonlinear_arith) requires 0 <= q < R(), P() > 0;
    assert(t < 2 * P() * R()) by {
        assert(9223249991064092674 * 9223249991064092674 + (R() - 1) * P() < 2 * P() * R()) by (compute);
    }
    assert(r < 2 * P()) by (nonlinear_arith) requires t == r * R(), t < 2 * P() * R(), R() > 0;
    assert(0 <= r) by (nonlinear_arith) requires t == r * R(), t >= 0, R() > 0;
    assert((z0 + q * P()) % P() == z0 % P()) by {
        vstd::arithmetic::div_mod::lemma_mod_multiples_vanish(q, z0, P());
    }
}

#[inline(always)]
const fn mul(a: u64, b: u64) -> (r: u64)
    requires a < 2*M, b < 2*M,
    ensures r < 2*M, (r as int * R()) % P() == (a as int * b as int) % P(),
{
    proof {
        assert(0 <= a as int * b as int <= 9223249991064092674 * 9223249991064092674) by (nonlinear_arith)
            requires 0 <= a < 9223249991064092674, 0 <= b < 9223249991064092674;
    }
    let z = (a as u128) * (b as u128);
    let ghost z0 = z;
    let q = ((#[verifier::truncate] (z as u64) as u128) * U) as u64;
    proof {
        assert(0 <= (q as int) * P() <= 0xffff_ffff_ffff_ffff * P()) by (nonlinear_arith)
            requires 0 <= q <= 0xffff_ffff_ffff_ffff;
        assert(9223249991064092674 * 9223249991064092674 + 0xffff_ffff_ffff_ffff * P() < 0x1_0000_0000_0000_0000_0000_0000_0000_0000) by (compute);
    }
    let z = z + (q as u128) * (M as u128);
    proof {
        let zl = (z0 as u64);
        lemma_mont_q(zl, q);
        assert(z0 as int % R() == zl as int) by (bit_vector) requires zl == (z0 as u64);
        // (z0 + qM) % R == (zl + qM) % R
        let qm = q as int * P();
        assert((z0 as int + qm) % R() == 0) by {
            vstd::arithmetic::div_mod::lemma_add_mod_noop(z0 as int, qm, R());
            vstd::arithmetic::div_mod::lemma_add_mod_noop(zl as int, qm, R());
            vstd::arithmetic::div_mod::lemma_small_mod(zl as nat, R() as nat);
        }
        assert((z >> 64) as int == z as int / R()) by (bit_vector);
        lemma_mont_step(z0 as int, q as int, (z as int) / R());
    }
    (z >> 64) as u64
}
}
fn main(){}
