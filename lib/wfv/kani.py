"""Engine K: Kani on the real crates of a scratch copy of /repo.

A *unit* is one Rust file under /verif/kani/ that is mounted as a child module of the repository
module owning the functions under contract.  Unit header and harness annotations are `//#` lines:

    //# unit: c10_f64
    //# crate: math                      (directory of the crate in the workspace)
    //# mount: math/src/field/f64/mod.rs (module file the unit becomes a child of)
    //# modpath: field::f64              (Rust path of that module inside the crate)
    //# assets: tiny btree               (shared verification-only modules to mount as well)
    //# attach: <file> | <fn anchor regex> | <attribute line>      (function-contract attributes)
    //# subst: <file> | <exact old line> | <new text>              (cfg-split imports only)
    //# subst_opt: same, but skipped silently when the old text is absent (alternative import spellings)

    //# harness: fn=<function under contract>; label=complete|bounded(..)|closed; tier=quick|thorough;
    //#          props=C10,C11; timeout=120; panics=ignore; replay=no; finding=<key>
    #[cfg_attr(kani, kani::proof)]
    pub fn k_name() { .. }
"""
import os
import re
import shlex

from .common import JOBS, Undecided, VERIF, log, run

KANI_DIR = os.path.join(VERIF, "kani")

# shared verification-only modules: name -> (source in /verif/kani, destination in scratch, mount file, mount line)
ASSETS = {
    "support": ("support.rs", "utils/core/src/verif_support.rs", "utils/core/src/lib.rs",
                "#[cfg(any(kani, verif_replay))]\npub mod verif_support;\n"),
    "models": ("models.rs", "utils/core/src/verif_models.rs", "utils/core/src/lib.rs",
               "#[cfg(any(kani, verif_replay))]\npub mod verif_models;\n"),
    "tiny": ("tinyfield.rs", "math/src/verif_tinyfield.rs", "math/src/lib.rs",
             "#[cfg(any(kani, verif_replay))]\npub mod verif_tinyfield;\n"),
    "mocks": ("mocks.rs", "crypto/src/verif_mocks.rs", "crypto/src/lib.rs",
              "#[cfg(any(kani, verif_replay))]\npub mod verif_mocks;\n"),
}

OB_RE = re.compile(r'v(?:check|reach)!\(\s*"([^"]+)"')
ID_RE = re.compile(r"^C\d\d\.")


class Harness:
    def __init__(self, unit, name, opts, body):
        self.unit = unit
        self.name = name
        self.fn = opts.get("fn", "?")
        self.label = opts.get("label", "bounded")
        self.tier = opts.get("tier", "quick")
        self.props = [p.strip() for p in opts.get("props", ",".join(unit.props)).split(",") if p.strip()]
        self.timeout = int(opts.get("timeout", "180"))
        self.panics = opts.get("panics", "check")
        self.replay = opts.get("replay", "yes") != "no"
        self.finding = opts.get("finding")
        # termination obligations: the unwind bound is far above the theoretical maximum, so a failed
        # unwinding assertion means "does not terminate", not "bound too small"
        self.unwind_fail_refutes = opts.get("termination", "no") == "yes"
        self.note = opts.get("note", "")
        self.uses = [u.strip() for u in opts.get("uses", "").split(",") if u.strip()]
        self.body = body
        self.obligations = []  # filled by Unit
        self.covers = []

    @property
    def full(self):
        return f"{self.unit.modpath}::verif_{self.unit.name}::{self.name}" if self.unit.modpath else \
            f"verif_{self.unit.name}::{self.name}"

    @property
    def panic_ob(self):
        return f"{self.props[0]}.{self.name}.panic_free"


class Unit:
    def __init__(self, path):
        self.path = path
        self.text = open(path).read()
        self.hdr = {}
        self.attach = []
        self.subst = []
        for m in re.finditer(r"^//# (\w+): (.*)$", self.text, re.M):
            k, v = m.group(1), m.group(2).strip()
            if k == "attach":
                self.attach.append([x.strip() for x in v.split(" | ")])
            elif k in ("subst", "subst_opt"):
                self.subst.append([x.strip() for x in v.split(" | ")] + [k == "subst_opt"])
            elif k != "harness":
                self.hdr[k] = v
        self.name = self.hdr["unit"]
        self.crate = self.hdr["crate"]
        self.mount = self.hdr["mount"]
        self.modpath = self.hdr.get("modpath", "")
        self.props = self.hdr.get("props", "").split()
        self.assets = ["support"] + self.hdr.get("assets", "").split()
        self.harnesses = self._parse_harnesses()

    def _parse_harnesses(self):
        hs = []
        # annotation block: consecutive //# lines starting with "//# harness:", then attrs, then pub fn
        pat = re.compile(
            r"((?:^//# .*\n)+)((?:^\s*#\[.*\]\s*\n)*)^pub fn (k_\w+)\s*\(\s*\)\s*\{", re.M)
        fn_names = {}
        for m in re.finditer(r"^(?:pub )?fn (\w+)", self.text, re.M):
            fn_names[m.group(1)] = m.start()
        starts = sorted(fn_names.values())
        for m in pat.finditer(self.text):
            ann = " ".join(l[3:].strip() for l in m.group(1).splitlines())
            if not ann.startswith("harness:"):
                continue
            ann = ann[len("harness:"):]
            opts = {}
            for part in ann.split(";"):
                if "=" in part:
                    k, v = part.split("=", 1)
                    opts[k.strip()] = v.strip()
            body = self._fn_body(m.end() - 1)
            h = Harness(self, m.group(3), opts, body)
            hs.append(h)
        for h in hs:
            text = h.body
            for u in h.uses:
                if u in fn_names:
                    i = self.text.index("{", fn_names[u])
                    text += self._fn_body(i)
            ids = []
            for mm in re.finditer(r'vcheck!\(\s*"([^"]+)"', text):
                if mm.group(1) not in ids:
                    ids.append(mm.group(1))
            h.obligations = ids
            h.covers = re.findall(r'vreach!\(\s*"([^"]+)"', text)
        names = [h.name for h in hs]
        if len(set(names)) != len(names):
            raise Undecided(f"duplicate harness names in {self.path}")
        return hs

    def _fn_body(self, brace_idx):
        depth = 0
        i = brace_idx
        t = self.text
        while i < len(t):
            c = t[i]
            if c == "{":
                depth += 1
            elif c == "}":
                depth -= 1
                if depth == 0:
                    return t[brace_idx:i + 1]
            i += 1
        return t[brace_idx:]


def load_units(names):
    return [Unit(os.path.join(KANI_DIR, n + ".rs")) for n in names]


# ------------------------------------------------------------------------------------------------
# splicing


def _append(path, text):
    with open(path, "a") as f:
        f.write("\n" + text)


def splice(scratch, units, report):
    """Mount assets and units into the scratch copy. Only additions, plus cfg-split imports."""
    done_assets = set()
    for u in units:
        for a in u.assets:
            if a in done_assets:
                continue
            done_assets.add(a)
            src, dest, mfile, mline = ASSETS[a]
            with open(os.path.join(KANI_DIR, src)) as f:
                body = f.read()
            with open(os.path.join(scratch, dest), "w") as f:
                f.write(body)
            _append(os.path.join(scratch, mfile), mline)
            report.append({"kind": "asset", "file": mfile, "added": mline.strip()})
    for u in units:
        mpath = os.path.join(scratch, u.mount)
        if not os.path.exists(mpath):
            raise Undecided(f"anchor-lost: mount file {u.mount} missing")
        dest = os.path.join(os.path.dirname(mpath), f"verif_{u.name}.rs")
        disp = ["", "#[cfg(all(test, verif_replay))]", "#[test]", "fn verif_replay_entry() {",
                "    extern crate std as verif_std;",
                ("    crate::verif_support::replay_load_from_env();" if u.crate == "utils/core" else
                 "    utils::verif_support::replay_load_from_env();"),
                "    let h = verif_std::env::var(\"VERIF_REPLAY_HARNESS\").unwrap();",
                "    match h.as_str() {"]
        for h in u.harnesses:
            if h.replay:
                disp.append(f"        \"{h.name}\" => {h.name}(),")
        disp += ["        _ => panic!(\"VERIF-REPLAY-UNKNOWN-HARNESS\"),", "    }", "}", ""]
        with open(dest, "w") as f:
            f.write(u.text + "\n".join(disp))
        line = (f"#[cfg(any(kani, verif_replay))]\n#[path = \"verif_{u.name}.rs\"]\n"
                f"pub mod verif_{u.name};\n")
        _append(mpath, line)
        report.append({"kind": "mount", "file": u.mount, "added": line.strip()})
        for file, anchor, attr in u.attach:
            p = os.path.join(scratch, file)
            src = open(p).read()
            ms = list(re.finditer(anchor, src, re.M))
            if len(ms) != 1:
                raise Undecided(f"anchor-lost: {file}: /{anchor}/ matched {len(ms)} times")
            # insert above the line containing the match start
            ls = src.rfind("\n", 0, ms[0].start()) + 1
            indent = re.match(r"\s*", src[ls:]).group(0)
            src = src[:ls] + indent + attr + "\n" + src[ls:]
            open(p, "w").write(src)
            report.append({"kind": "attach", "file": file, "anchor": anchor, "added": attr})
        for file, old, new, optional in u.subst:
            p = os.path.join(scratch, file)
            src = open(p).read()
            if src.count(old) != 1:
                if optional and src.count(old) == 0:
                    continue
                raise Undecided(f"anchor-lost: {file}: import line {old!r} found {src.count(old)} times")
            src = src.replace(old, "" if new == "<empty>" else new.replace("\\n", "\n"))
            open(p, "w").write(src)
            report.append({"kind": "subst", "file": file, "old": old, "new": new})


# ------------------------------------------------------------------------------------------------
# running


def _strip_noise(out):
    keep = []
    skip = False
    for l in out.splitlines():
        if l.startswith("warning") or l.startswith("   Compiling") or l.startswith("    Checking"):
            skip = l.startswith("warning")
            continue
        if skip:
            if l.strip() == "" or re.match(r"^\s*(\||=|-->|\d+ \||\.\.\.|\[lints|unexpected_cfgs)", l):
                continue
            skip = False
        keep.append(l)
    return "\n".join(keep)


class HarnessResult:
    def __init__(self, h):
        self.h = h
        self.status = "missing"  # success | failed | timeout | error | missing
        self.failed = []  # [(description, location)]
        self.total = 0
        self.nfailed = 0
        self.cover_sat = None
        self.cover_total = None
        self.seconds = 0.0
        self.raw = ""


def parse_terse(out, harnesses):
    by_full = {h.full: HarnessResult(h) for h in harnesses}
    thread_h = {}
    lines = out.splitlines()
    i = 0
    cur = None
    while i < len(lines):
        l = lines[i]
        m = re.match(r"^(?:Thread (\d+): )?Checking harness (\S+?)\.\.\.", l)
        if m:
            thread_h[m.group(1) or "0"] = m.group(2)
            if m.group(1) is None:
                cur = by_full.get(m.group(2))
            i += 1
            continue
        m = re.match(r"^Thread (\d+): ?$", l)
        if m:
            cur = by_full.get(thread_h.get(m.group(1)))
            i += 1
            continue
        if cur is not None:
            cur.raw += l + "\n"
            m = re.match(r"^ \*\* (\d+) of (\d+) failed", l)
            if m:
                cur.nfailed, cur.total = int(m.group(1)), int(m.group(2))
            m = re.match(r"^ \*\* (\d+) of (\d+) cover properties satisfied", l)
            if m:
                cur.cover_sat, cur.cover_total = int(m.group(1)), int(m.group(2))
            m = re.match(r"^Failed Checks: (.*)$", l)
            if m:
                loc = lines[i + 1].strip() if i + 1 < len(lines) and lines[i + 1].startswith(" File:") else ""
                cur.failed.append((m.group(1).strip(), loc))
            if l.startswith("VERIFICATION:- SUCCESSFUL"):
                cur.status = "success"
            elif l.startswith("VERIFICATION:- FAILED"):
                cur.status = "failed"
            elif "CBMC timed out" in l or "timed out" in l.lower():
                cur.status = "timeout"
            elif "out of memory" in l.lower() or "CBMC failed" in l or "bad_alloc" in l:
                if cur.status == "missing":
                    cur.status = "error"
            m = re.match(r"^Verification Time: ([0-9.]+)s", l)
            if m:
                cur.seconds = float(m.group(1))
        i += 1
    return by_full


def run_crate(scratch, crate, harnesses, jobs=JOBS, extra_args=()):
    """One cargo-kani invocation for all selected harnesses of one crate."""
    if not harnesses:
        return {}, "", 0.0
    tmo = max(h.timeout for h in harnesses)
    cmd = ["cargo", "kani", "-Z", "function-contracts", "-Z", "stubbing", "-Z", "unstable-options",
           "--output-format=terse", "-j", str(jobs), "--harness-timeout", f"{tmo}s", "--exact"]
    for h in harnesses:
        cmd += ["--harness", h.full]
    cmd += list(extra_args)
    overall = 240 + tmo * (1 + len(harnesses) // max(1, jobs)) + 120
    rc, out, secs, timed_out = run(cmd, cwd=os.path.join(scratch, crate), timeout=overall)
    out = _strip_noise(out)
    res = parse_terse(out, harnesses)
    if timed_out:
        for r in res.values():
            if r.status == "missing":
                r.status = "timeout"
    for r in res.values():
        low = r.raw.lower()
        if "cbmc timed out" in low:
            r.status = "timeout"
        elif "out of memory" in low or "cbmc failed" in low or "bad_alloc" in low or "cbmc crashed" in low:
            r.status = "error"
        elif r.status == "failed" and not r.failed:
            # a FAILED verdict without a single failed check is a tool failure, never a pass
            r.status = "error"
        elif r.status == "success" and r.total == 0:
            r.status = "error"
    compile_failed = ("error: could not compile" in out or "error[E" in out or
                      re.search(r"^error: (?!.*harness)", out, re.M) is not None and not res)
    if all(r.status == "missing" for r in res.values()) and (rc != 0):
        raise Undecided("kani-build-failed:\n" + out[-6000:])
    return res, out, secs


def playback(scratch, h):
    """Re-run one failed harness with concrete playback; returns (values, decoded, text)."""
    cmd = ["cargo", "kani", "-Z", "function-contracts", "-Z", "stubbing", "-Z", "unstable-options",
           "-Z", "concrete-playback", "--concrete-playback=print", "--exact", "--harness", h.full,
           "--harness-timeout", f"{min(h.timeout * 2, 900)}s"]
    # (bounded: when the trace cannot be produced in time the violation is still reported, as no-failing-input-found)
    rc, out, secs, to = run(cmd, cwd=os.path.join(scratch, h.unit.crate), timeout=min(h.timeout * 2, 900) + 200)
    out = _strip_noise(out)
    tests = []
    for m in re.finditer(r"/// Check for `(\w+)`: \"(.*?)\"\s*\n(?:[^\n]*\n)*?\s*let concrete_vals: Vec<Vec<u8>> = vec!\[(.*?)\n\s*\];", out, re.S):
        kind, desc = m.group(1), m.group(2)
        vals, dec = [], []
        for l in m.group(3).splitlines():
            l = l.strip()
            mm = re.match(r"^vec!\[(.*)\],?$", l)
            if mm:
                s = mm.group(1).strip()
                vals.append([int(x) for x in s.split(",") if x.strip()] if s else [])
            elif l.startswith("//"):
                dec.append(l[2:].strip())
        tests.append((vals, dec, kind, desc))
    return tests, out


def native_replay(scratch, h, values):
    """Run the harness body natively (repository toolchain, debug profile) on recorded values."""
    vfile = os.path.join(scratch, f"replay-values-{h.name}.txt")
    with open(vfile, "w") as f:
        for v in values:
            f.write("".join(f"{b:02x}" for b in v) + "\n")
    pkg = _pkg_name(scratch, h.unit.crate)
    cmd = ["cargo", "test", "--offline", "-p", pkg, "--lib", f"verif_{h.unit.name}::verif_replay_entry",
           "--", "--nocapture", "--test-threads", "1"]
    env = {"RUSTFLAGS": "--cfg verif_replay -A unexpected_cfgs -A warnings", "VERIF_REPLAY_VALUES": vfile,
           "VERIF_REPLAY_HARNESS": h.name, "RUST_BACKTRACE": "0"}
    rc, out, secs, to = run(cmd, cwd=scratch, timeout=900, env=env)
    tail = "\n".join(l for l in out.splitlines() if "panicked" in l or "VERIF-" in l or "test result" in l
                     or "error" in l.lower())[-3000:]
    if to:
        return "timeout", tail
    m = re.search(r"VERIF-CHECK-FAILED (\S+)", out)
    if m:
        return "reproduced:" + m.group(1), tail
    if "VERIF-REPLAY-ASSUMPTION-FAILED" in out:
        return "replay-invalid(assumption)", tail
    if "panicked at" in out:
        return "reproduced:panic", tail
    if "test result: ok. 1 passed" in out:
        return "not-reproduced", tail
    return "replay-build-error", out[-3000:]


def _pkg_name(scratch, crate):
    t = open(os.path.join(scratch, crate, "Cargo.toml")).read()
    return re.search(r'^name\s*=\s*"([^"]+)"', t, re.M).group(1)
