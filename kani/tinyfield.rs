//! Verification-only prime field F_17 (two-adicity 4, generator 3) implementing the real
//! FieldElement / StarkField / ExtensibleField traits, so that winterfell's *generic* code can be
//! monomorphised at a field small enough for bit-precise model checking. Mounted into a scratch copy
//! of winter-math as `math::verif_tinyfield`; never part of /repo.
#![allow(dead_code, clippy::all)]
use alloc::{string::String, vec::Vec};
use core::{
    fmt::{Debug, Display, Formatter},
    ops::{Add, AddAssign, Div, DivAssign, Mul, MulAssign, Neg, Sub, SubAssign},
    slice,
};

use utils::{
    AsBytes, ByteReader, ByteWriter, Deserializable, DeserializationError, Randomizable,
    Serializable,
};

use crate::field::{ExtensibleField, FieldElement, StarkField};

pub const P: u32 = 17;

#[derive(Copy, Clone, Default, PartialEq, Eq)]
#[repr(transparent)]
pub struct Tiny(pub u32);

impl Tiny {
    pub const fn new(v: u64) -> Self {
        Tiny((v % (P as u64)) as u32)
    }
}

impl FieldElement for Tiny {
    type PositiveInteger = u64;
    type BaseField = Self;
    const EXTENSION_DEGREE: usize = 1;
    const ELEMENT_BYTES: usize = 8;
    const IS_CANONICAL: bool = false;
    const ZERO: Self = Tiny(0);
    const ONE: Self = Tiny(1);

    fn inv(self) -> Self {
        // x^(p-2) by square-and-multiply over the bits of p-2
        let mut r = Tiny(1);
        let mut b = self;
        let mut e = P - 2;
        while e > 0 {
            if e & 1 == 1 {
                r = r * b;
            }
            b = b * b;
            e >>= 1;
        }
        r
    }
    fn conjugate(&self) -> Self {
        *self
    }
    fn base_element(&self, i: usize) -> Self {
        assert!(i == 0);
        *self
    }
    fn slice_as_base_elements(e: &[Self]) -> &[Self] {
        e
    }
    fn slice_from_base_elements(e: &[Self]) -> &[Self] {
        e
    }
    fn elements_as_bytes(elements: &[Self]) -> &[u8] {
        unsafe { slice::from_raw_parts(elements.as_ptr() as *const u8, elements.len() * 8) }
    }
    unsafe fn bytes_as_elements(_bytes: &[u8]) -> Result<&[Self], DeserializationError> {
        Err(DeserializationError::UnknownError(String::new()))
    }
}

impl StarkField for Tiny {
    const MODULUS: u64 = P as u64;
    const MODULUS_BITS: u32 = 5;
    const GENERATOR: Self = Tiny(3);
    const TWO_ADICITY: u32 = 4;
    const TWO_ADIC_ROOT_OF_UNITY: Self = Tiny(3);
    fn get_modulus_le_bytes() -> Vec<u8> {
        (P as u64).to_le_bytes().to_vec()
    }
    fn as_int(&self) -> u64 {
        self.0 as u64
    }
}

impl Randomizable for Tiny {
    const VALUE_SIZE: usize = 8;
    fn from_random_bytes(bytes: &[u8]) -> Option<Self> {
        Self::try_from(bytes).ok()
    }
}
impl Debug for Tiny {
    fn fmt(&self, f: &mut Formatter<'_>) -> core::fmt::Result {
        write!(f, "{}", self.0)
    }
}
impl Display for Tiny {
    fn fmt(&self, f: &mut Formatter<'_>) -> core::fmt::Result {
        write!(f, "{}", self.0)
    }
}
impl Add for Tiny {
    type Output = Self;
    fn add(self, r: Self) -> Self {
        Tiny((self.0 + r.0) % P)
    }
}
impl AddAssign for Tiny {
    fn add_assign(&mut self, r: Self) {
        *self = *self + r
    }
}
impl Sub for Tiny {
    type Output = Self;
    fn sub(self, r: Self) -> Self {
        Tiny((self.0 + P - r.0) % P)
    }
}
impl SubAssign for Tiny {
    fn sub_assign(&mut self, r: Self) {
        *self = *self - r
    }
}
impl Mul for Tiny {
    type Output = Self;
    fn mul(self, r: Self) -> Self {
        Tiny((self.0 * r.0) % P)
    }
}
impl MulAssign for Tiny {
    fn mul_assign(&mut self, r: Self) {
        *self = *self * r
    }
}
impl Div for Tiny {
    type Output = Self;
    fn div(self, r: Self) -> Self {
        self * r.inv()
    }
}
impl DivAssign for Tiny {
    fn div_assign(&mut self, r: Self) {
        *self = *self / r
    }
}
impl Neg for Tiny {
    type Output = Self;
    fn neg(self) -> Self {
        Tiny((P - self.0) % P)
    }
}
impl ExtensibleField<2> for Tiny {
    // x^2 - 3 (3 is a generator hence a non-residue)
    fn mul(a: [Self; 2], b: [Self; 2]) -> [Self; 2] {
        [a[0] * b[0] + Tiny(3) * a[1] * b[1], a[0] * b[1] + a[1] * b[0]]
    }
    fn mul_base(a: [Self; 2], b: Self) -> [Self; 2] {
        [a[0] * b, a[1] * b]
    }
    fn frobenius(x: [Self; 2]) -> [Self; 2] {
        [x[0], -x[1]]
    }
}
impl ExtensibleField<3> for Tiny {
    fn mul(_a: [Self; 3], _b: [Self; 3]) -> [Self; 3] {
        unimplemented!()
    }
    fn mul_base(_a: [Self; 3], _b: Self) -> [Self; 3] {
        unimplemented!()
    }
    fn frobenius(_x: [Self; 3]) -> [Self; 3] {
        unimplemented!()
    }
    fn is_supported() -> bool {
        false
    }
}
impl From<u32> for Tiny {
    fn from(v: u32) -> Self {
        Tiny::new(v as u64)
    }
}
impl From<u16> for Tiny {
    fn from(v: u16) -> Self {
        Tiny::new(v as u64)
    }
}
impl From<u8> for Tiny {
    fn from(v: u8) -> Self {
        Tiny::new(v as u64)
    }
}
impl TryFrom<u64> for Tiny {
    type Error = String;
    fn try_from(v: u64) -> Result<Self, String> {
        if v >= P as u64 {
            Err(String::new())
        } else {
            Ok(Tiny(v as u32))
        }
    }
}
impl TryFrom<u128> for Tiny {
    type Error = String;
    fn try_from(v: u128) -> Result<Self, String> {
        if v >= P as u128 {
            Err(String::new())
        } else {
            Ok(Tiny(v as u32))
        }
    }
}
impl TryFrom<&'_ [u8]> for Tiny {
    type Error = DeserializationError;
    fn try_from(bytes: &[u8]) -> Result<Self, Self::Error> {
        if bytes.len() != 8 {
            return Err(DeserializationError::InvalidValue(String::new()));
        }
        let mut b = [0u8; 8];
        b.copy_from_slice(bytes);
        let v = u64::from_le_bytes(b);
        if v >= P as u64 {
            return Err(DeserializationError::InvalidValue(String::new()));
        }
        Ok(Tiny(v as u32))
    }
}
impl AsBytes for Tiny {
    fn as_bytes(&self) -> &[u8] {
        let p: *const Tiny = self;
        unsafe { slice::from_raw_parts(p as *const u8, 8) }
    }
}
impl Serializable for Tiny {
    fn write_into<W: ByteWriter>(&self, target: &mut W) {
        target.write_bytes(&(self.0 as u64).to_le_bytes());
    }
}
impl Deserializable for Tiny {
    fn read_from<R: ByteReader>(source: &mut R) -> Result<Self, DeserializationError> {
        let v = source.read_u64()?;
        if v >= P as u64 {
            return Err(DeserializationError::InvalidValue(String::new()));
        }
        Ok(Tiny(v as u32))
    }
}
