//! Verification-only hashers, mounted into a scratch copy of `winter-crypto` as
//! `crypto::verif_mocks`. They stand for "any hash function": every output is a fresh
//! unconstrained digest (an uninterpreted function without even functional consistency) and every
//! call is recorded with its arguments, so contracts can state *which* hash calls a function makes,
//! with which arguments and in which order, and how its outputs depend on the returned digests.
#![allow(dead_code, unused_imports, static_mut_refs, clippy::all)]
use alloc::vec::Vec;
use core::marker::PhantomData;

use math::{FieldElement, StarkField};
use utils::verif_support as vs;

use crate::{hash::ByteDigest, Digest, ElementHasher, Hasher};

pub const DN: usize = 8;
pub type D = ByteDigest<DN>;

pub const K_HASH: u8 = 1;
pub const K_MERGE: u8 = 2;
pub const K_MERGE_MANY: u8 = 3;
pub const K_MERGE_INT: u8 = 4;
pub const K_HASH_ELEMENTS: u8 = 5;

#[derive(Clone, Copy)]
pub struct Rec {
    pub kind: u8,
    /// first digest argument (seed / left child), zero if none
    pub a: [u8; DN],
    /// second digest argument (right child), zero if none
    pub b: [u8; DN],
    /// integer argument of merge_with_int
    pub int: u64,
    /// number of bytes / digests / elements in the variable-length argument
    pub n: usize,
    /// first 32 bytes of the variable-length argument (element bytes, input bytes)
    pub head: [u8; 32],
    pub out: [u8; DN],
}

const EMPTY: Rec = Rec { kind: 0, a: [0; DN], b: [0; DN], int: 0, n: 0, head: [0; 32], out: [0; DN] };
pub const CAP: usize = 12;
static mut LOG: [Rec; CAP] = [EMPTY; CAP];
static mut LEN: usize = 0;
/// from this call index on, merge_with_int outputs have their high byte cleared (so that rejection
/// sampling loops terminate within a known number of iterations)
static mut SMALL_FROM: usize = usize::MAX;

/// digest from raw bytes (ByteDigest is not re-exported by the crate)
pub fn digest_from(bytes: [u8; DN]) -> D {
    ByteDigest::new(bytes)
}

pub fn reset() {
    unsafe {
        LEN = 0;
        SMALL_FROM = usize::MAX;
    }
}
pub fn small_from(i: usize) {
    unsafe { SMALL_FROM = i }
}
pub fn calls() -> usize {
    unsafe { LEN }
}
pub fn call(i: usize) -> Rec {
    unsafe { LOG[i] }
}
fn head_of(bytes: &[u8]) -> [u8; 32] {
    let mut h = [0u8; 32];
    let mut i = 0;
    while i < 32 && i < bytes.len() {
        h[i] = bytes[i];
        i += 1;
    }
    h
}
fn push(mut r: Rec) -> D {
    unsafe {
        let mut out: [u8; DN] = vs::any_bytes();
        if r.kind == K_MERGE_INT && LEN >= SMALL_FROM {
            out[DN - 1] = 0;
        }
        r.out = out;
        if LEN < CAP {
            LOG[LEN] = r;
        }
        LEN += 1;
        ByteDigest::new(out)
    }
}
fn d8(d: &D) -> [u8; DN] {
    let b = d.as_bytes();
    let mut r = [0u8; DN];
    r.copy_from_slice(&b[..DN]);
    r
}

/// Recording hasher over base field B.
pub struct RecHasher<B: StarkField>(PhantomData<B>);

impl<B: StarkField> Hasher for RecHasher<B> {
    type Digest = D;
    const COLLISION_RESISTANCE: u32 = 32;

    fn hash(bytes: &[u8]) -> D {
        push(Rec { kind: K_HASH, n: bytes.len(), head: head_of(bytes), ..EMPTY })
    }
    fn merge(values: &[D; 2]) -> D {
        push(Rec { kind: K_MERGE, a: d8(&values[0]), b: d8(&values[1]), n: 2, ..EMPTY })
    }
    fn merge_many(values: &[D]) -> D {
        let a = if values.len() > 0 { d8(&values[0]) } else { [0; DN] };
        let b = if values.len() > 1 { d8(&values[1]) } else { [0; DN] };
        push(Rec { kind: K_MERGE_MANY, a, b, n: values.len(), ..EMPTY })
    }
    fn merge_with_int(seed: D, value: u64) -> D {
        push(Rec { kind: K_MERGE_INT, a: d8(&seed), int: value, ..EMPTY })
    }
}

impl<B: StarkField> ElementHasher for RecHasher<B> {
    type BaseField = B;
    fn hash_elements<E: FieldElement<BaseField = B>>(elements: &[E]) -> D {
        push(Rec { kind: K_HASH_ELEMENTS, n: elements.len(), head: head_of(E::elements_as_bytes(elements)), ..EMPTY })
    }
}

/// A cheap deterministic hasher (functional, not injective) for obligations that must hold for
/// every hash function and need real functional behaviour (Merkle consistency).
pub struct MixHasher<B: StarkField>(PhantomData<B>);

fn mix(acc: [u8; DN], x: &[u8]) -> [u8; DN] {
    let mut a = acc;
    let mut i = 0;
    while i < x.len() {
        let j = i % DN;
        a[j] = a[j].wrapping_mul(31).wrapping_add(x[i]) ^ a[(j + 1) % DN].rotate_left(3);
        i += 1;
    }
    a
}

impl<B: StarkField> Hasher for MixHasher<B> {
    type Digest = D;
    const COLLISION_RESISTANCE: u32 = 32;
    fn hash(bytes: &[u8]) -> D {
        ByteDigest::new(mix([7, 3, 1, 9, 5, 2, 8, 4], bytes))
    }
    fn merge(values: &[D; 2]) -> D {
        let a = mix([1, 2, 3, 4, 5, 6, 7, 8], &d8(&values[0]));
        ByteDigest::new(mix(a, &d8(&values[1])))
    }
    fn merge_many(values: &[D]) -> D {
        let mut a = [9, 8, 7, 6, 5, 4, 3, 2];
        let mut i = 0;
        while i < values.len() {
            a = mix(a, &d8(&values[i]));
            i += 1;
        }
        ByteDigest::new(a)
    }
    fn merge_with_int(seed: D, value: u64) -> D {
        ByteDigest::new(mix(d8(&seed), &value.to_le_bytes()))
    }
}
impl<B: StarkField> ElementHasher for MixHasher<B> {
    type BaseField = B;
    fn hash_elements<E: FieldElement<BaseField = B>>(elements: &[E]) -> D {
        ByteDigest::new(mix([4, 4, 2, 2, 1, 1, 3, 3], E::elements_as_bytes(elements)))
    }
}

// ROW-HASH RULE (shared specification for prover and verifier, property C28)
// ================================================================================================

/// Checks that the recorded calls `first ..` are exactly the documented row-digest rule for a row
/// whose element bytes are `row_bytes` (`elem_bytes` per element) and partition size `p`:
/// one `hash_elements(row)` when `p == row_len`, otherwise `hash_elements` of each chunk of `p`
/// elements in order followed by one `merge_many` of the chunk digests. Returns the index after the
/// last consumed call and the resulting digest bytes, or None if the calls deviate.
pub fn rowhash_spec(first: usize, row_bytes: &[u8], elem_bytes: usize, p: usize) -> Option<(usize, [u8; DN])> {
    let row_len = row_bytes.len() / elem_bytes;
    if p == row_len {
        let c = call(first);
        if c.kind != K_HASH_ELEMENTS || c.n != row_len || c.head != head_of(row_bytes) {
            return None;
        }
        return Some((first + 1, c.out));
    }
    let chunks = (row_len + p - 1) / p;
    let mut outs = [[0u8; DN]; 8];
    let mut i = 0;
    while i < chunks {
        let lo = i * p;
        let hi = if lo + p < row_len { lo + p } else { row_len };
        let c = call(first + i);
        if c.kind != K_HASH_ELEMENTS || c.n != hi - lo || c.head != head_of(&row_bytes[lo * elem_bytes..hi * elem_bytes]) {
            return None;
        }
        if i < 8 {
            outs[i] = c.out;
        }
        i += 1;
    }
    let m = call(first + chunks);
    if m.kind != K_MERGE_MANY || m.n != chunks || m.a != outs[0] || (chunks > 1 && m.b != outs[1]) {
        return None;
    }
    Some((first + chunks + 1, m.out))
}
