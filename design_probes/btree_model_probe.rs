//! Sorted-Vec models of BTreeMap / BTreeSet (verification only)
use alloc::vec::Vec;

#[derive(Clone, Debug, Default)]
pub struct BTreeMap<K, V> { items: Vec<(K, V)> }
impl<K: Ord + Copy, V> BTreeMap<K, V> {
    pub fn new() -> Self { Self { items: Vec::new() } }
    fn pos(&self, k: &K) -> Result<usize, usize> {
        let mut i = 0;
        while i < self.items.len() {
            if self.items[i].0 == *k { return Ok(i); }
            if self.items[i].0 > *k { return Err(i); }
            i += 1;
        }
        Err(i)
    }
    pub fn insert(&mut self, k: K, v: V) -> Option<V> {
        match self.pos(&k) {
            Ok(i) => Some(core::mem::replace(&mut self.items[i].1, v)),
            Err(i) => { self.items.insert(i, (k, v)); None }
        }
    }
    pub fn get(&self, k: &K) -> Option<&V> { match self.pos(k) { Ok(i) => Some(&self.items[i].1), Err(_) => None } }
    pub fn remove(&mut self, k: &K) -> Option<V> { match self.pos(k) { Ok(i) => Some(self.items.remove(i).1), Err(_) => None } }
    pub fn len(&self) -> usize { self.items.len() }
    pub fn clear(&mut self) { self.items.clear() }
    pub fn keys(&self) -> impl Iterator<Item = &K> { self.items.iter().map(|e| &e.0) }
    pub fn values(&self) -> impl Iterator<Item = &V> { self.items.iter().map(|e| &e.1) }
}
pub struct Entry<'a, K, V> { map: &'a mut BTreeMap<K, V>, key: K }
impl<'a, K: Ord + Copy, V> Entry<'a, K, V> {
    pub fn or_insert_with<F: FnOnce() -> V>(self, f: F) -> &'a mut V {
        match self.map.pos(&self.key) {
            Ok(i) => &mut self.map.items[i].1,
            Err(i) => { self.map.items.insert(i, (self.key, f())); &mut self.map.items[i].1 }
        }
    }
}
impl<K: Ord + Copy, V> BTreeMap<K, V> {
    pub fn entry(&mut self, k: K) -> Entry<'_, K, V> { Entry { map: self, key: k } }
}
#[derive(Clone, Debug, Default)]
pub struct BTreeSet<K> { items: Vec<K> }
impl<K: Ord + Copy> BTreeSet<K> {
    pub fn new() -> Self { Self { items: Vec::new() } }
    pub fn insert(&mut self, k: K) -> bool {
        let mut i = 0;
        while i < self.items.len() {
            if self.items[i] == k { return false; }
            if self.items[i] > k { break; }
            i += 1;
        }
        self.items.insert(i, k);
        true
    }
    pub fn len(&self) -> usize { self.items.len() }
}
impl<K> IntoIterator for BTreeSet<K> { type Item = K; type IntoIter = alloc::vec::IntoIter<K>; fn into_iter(self) -> Self::IntoIter { self.items.into_iter() } }
