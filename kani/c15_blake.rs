//# unit: c15_blake
//# crate: crypto
//# mount: crypto/src/hash/blake/mod.rs
//# modpath: hash::blake
//# props: C15 C17
//! C15 / C17 — the BLAKE3 hashers hand exactly the documented byte layout to the primitive and
//! return its output (truncated to 24 bytes for the 192-bit variant). The primitive itself
//! (`blake3::hash`, `blake3::Hasher::update/finalize`) is replaced by recorders: it is trusted and
//! its code is never entered. C17 for the byte hashers follows from the layouts: inputs of different
//! length give primitive inputs of different length.
#![allow(unused_imports, dead_code, static_mut_refs)]
use alloc::vec::Vec;

use math::fields::{f128, f62, f64 as g64};
use utils::{vcheck, vreach, verif_support as vs};

use super::*;

// --- recorders standing for the primitive ---------------------------------------------------------
const CAP: usize = 96;
static mut IN: [u8; CAP] = [0; CAP];
static mut IN_LEN: usize = 0;
static mut CALLS: usize = 0;
static mut OUT: [u8; 32] = [0; 32];

fn rec_reset() {
    unsafe {
        IN_LEN = 0;
        CALLS = 0;
    }
}
fn rec_append(bytes: &[u8]) {
    unsafe {
        let mut i = 0;
        while i < bytes.len() {
            if IN_LEN < CAP {
                IN[IN_LEN] = bytes[i];
            }
            IN_LEN += 1;
            i += 1;
        }
    }
}
fn rec_hash(bytes: &[u8]) -> blake3::Hash {
    unsafe {
        CALLS += 1;
        rec_append(bytes);
        OUT = vs::any_bytes::<32>();
        blake3::Hash::from_bytes(OUT)
    }
}
fn rec_update<'a>(h: &'a mut blake3::Hasher, bytes: &[u8]) -> &'a mut blake3::Hasher {
    rec_append(bytes);
    h
}
fn rec_finalize(_h: &blake3::Hasher) -> blake3::Hash {
    unsafe {
        CALLS += 1;
        OUT = vs::any_bytes::<32>();
        blake3::Hash::from_bytes(OUT)
    }
}
/// stands for BlakeHasher::new: the streaming state is an opaque token (update / finalize are
/// recorders and never look at it); the real constructor reaches CPU-feature detection (inline asm)
fn rec_new() -> BlakeHasher {
    BlakeHasher(unsafe { core::mem::zeroed() })
}
fn input_is(expected: &[u8]) -> bool {
    unsafe {
        if IN_LEN != expected.len() {
            return false;
        }
        let mut ok = true;
        let mut i = 0;
        while i < expected.len() {
            ok = ok && IN[i] == expected[i];
            i += 1;
        }
        ok
    }
}
fn out32() -> [u8; 32] {
    unsafe { OUT }
}
fn out24() -> [u8; 24] {
    let mut r = [0u8; 24];
    r.copy_from_slice(&out32()[..24]);
    r
}

type B256 = Blake3_256<g64::BaseElement>;
type B192 = Blake3_192<g64::BaseElement>;

//# harness: fn=Blake3_256::hash, merge, merge_many, merge_with_int; label=bounded(hash input 5 bytes, merge_many of 3 digests; every byte, digest and integer); tier=quick; replay=no; timeout=400
#[cfg_attr(kani, kani::proof)]
#[cfg_attr(kani, kani::unwind(100))]
#[cfg_attr(kani, kani::stub(blake3::hash, rec_hash))]
pub fn k_c15_blake256_layout() {
    rec_reset();
    let b: [u8; 5] = vs::any_bytes();
    let d = B256::hash(&b);
    vcheck!("C15.blake256.hash.layout", unsafe { CALLS } == 1 && input_is(&b) && d.0 == out32());

    rec_reset();
    let (x, y, z) = (ByteDigest(vs::any_bytes::<32>()), ByteDigest(vs::any_bytes::<32>()), ByteDigest(vs::any_bytes::<32>()));
    let d = B256::merge(&[x, y]);
    let mut cat = [0u8; 64];
    cat[..32].copy_from_slice(&x.0);
    cat[32..].copy_from_slice(&y.0);
    vcheck!("C15.blake256.merge.layout", unsafe { CALLS } == 1 && input_is(&cat) && d.0 == out32());

    rec_reset();
    let d = B256::merge_many(&[x, y, z]);
    let mut cat3 = [0u8; 96];
    cat3[..64].copy_from_slice(&cat);
    cat3[64..].copy_from_slice(&z.0);
    vcheck!("C15.blake256.merge_many.layout", unsafe { CALLS } == 1 && input_is(&cat3) && d.0 == out32());

    rec_reset();
    let v = vs::any_u64();
    let d = B256::merge_with_int(x, v);
    let mut si = [0u8; 40];
    si[..32].copy_from_slice(&x.0);
    si[32..].copy_from_slice(&v.to_le_bytes());
    vcheck!("C15.blake256.merge_with_int.layout", unsafe { CALLS } == 1 && input_is(&si) && d.0 == out32());
    vreach!("C15.blake256.reach");
}

//# harness: fn=Blake3_192::hash, merge, merge_with_int (24-byte truncation); label=bounded(hash input 5 bytes; every byte, digest and integer); tier=quick; replay=no; timeout=400
#[cfg_attr(kani, kani::proof)]
#[cfg_attr(kani, kani::unwind(100))]
#[cfg_attr(kani, kani::stub(blake3::hash, rec_hash))]
pub fn k_c15_blake192_layout() {
    rec_reset();
    let b: [u8; 5] = vs::any_bytes();
    let d = B192::hash(&b);
    vcheck!("C15.blake192.hash.layout_truncated", unsafe { CALLS } == 1 && input_is(&b) && d.0 == out24());
    rec_reset();
    let (x, y) = (ByteDigest(vs::any_bytes::<24>()), ByteDigest(vs::any_bytes::<24>()));
    let d = B192::merge(&[x, y]);
    let mut cat = [0u8; 48];
    cat[..24].copy_from_slice(&x.0);
    cat[24..].copy_from_slice(&y.0);
    vcheck!("C15.blake192.merge.layout_truncated", unsafe { CALLS } == 1 && input_is(&cat) && d.0 == out24());
    rec_reset();
    let v = vs::any_u64();
    let d = B192::merge_with_int(x, v);
    let mut si = [0u8; 32];
    si[..24].copy_from_slice(&x.0);
    si[24..].copy_from_slice(&v.to_le_bytes());
    vcheck!("C15.blake192.merge_with_int.layout_truncated", unsafe { CALLS } == 1 && input_is(&si) && d.0 == out24());
    vreach!("C15.blake192.reach");
}

//# harness: fn=Blake3_256::hash_elements (f64, f62: serialized canonical integers; f128: IS_CANONICAL raw memory); label=bounded(2 elements; every element value and representation); tier=quick; replay=no; timeout=600
#[cfg_attr(kani, kani::proof)]
#[cfg_attr(kani, kani::unwind(40))]
#[cfg_attr(kani, kani::stub(blake3::hash, rec_hash))]
#[cfg_attr(kani, kani::stub(blake3::Hasher::update, rec_update))]
#[cfg_attr(kani, kani::stub(blake3::Hasher::finalize, rec_finalize))]
#[cfg_attr(kani, kani::stub(BlakeHasher::new, rec_new))]
pub fn k_c15_blake256_hash_elements() {
    use math::{FieldElement, StarkField};
    // f64: Montgomery representation must not leak: the bytes are the canonical integers
    rec_reset();
    let (a, b) = (vs::any_u64(), vs::any_u64());
    vs::assume(a < g64::BaseElement::MODULUS && b < g64::BaseElement::MODULUS);
    let e = [g64::BaseElement::from_mont(a), g64::BaseElement::from_mont(b)];
    let d = Blake3_256::<g64::BaseElement>::hash_elements(&e);
    let mut want = [0u8; 16];
    want[..8].copy_from_slice(&e[0].as_int().to_le_bytes());
    want[8..].copy_from_slice(&e[1].as_int().to_le_bytes());
    vcheck!("C15.blake256.hash_elements.f64.canonical_le_layout", unsafe { CALLS } == 1 && input_is(&want) && d.0 == out32());

    // f128: IS_CANONICAL shortcut hashes raw memory, which must equal the canonical encoding
    rec_reset();
    let (x, y) = (vs::any_u128(), vs::any_u128());
    let e = [f128::BaseElement::new(x), f128::BaseElement::new(y)];
    let d = Blake3_256::<f128::BaseElement>::hash_elements(&e);
    let mut want = [0u8; 32];
    want[..16].copy_from_slice(&e[0].as_int().to_le_bytes());
    want[16..].copy_from_slice(&e[1].as_int().to_le_bytes());
    vcheck!("C15.blake256.hash_elements.f128.raw_memory_is_canonical", unsafe { CALLS } == 1 && input_is(&want) && d.0 == out32());
    vreach!("C15.hash_elements.reach");
}
