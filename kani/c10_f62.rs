//# unit: c10_f62
//# crate: math
//# mount: math/src/field/f62/mod.rs
//# modpath: field::f62
//# props: C10
//! C10 — f62 (lazy reduction, inner in [0, 2M)): linear operations, equality and normalisation over
//! the full machine domain and over *every* internal representation (both representations of each
//! value). The Montgomery product and as_int(new(v)) == v are the Verus unit f62_core.
#![allow(unused_imports, dead_code)]
use utils::{vcheck, vreach, verif_support as vs};

use super::*;

const MW: u128 = M as u128;

/// every internal representation reachable through the public API: inner < 2M
fn any_elem() -> BaseElement {
    let a = vs::any_u64();
    vs::assume(a < 2 * M);
    BaseElement(a)
}

//# harness: fn=f62 add, sub, <BaseElement as Add/Sub/Neg>, AddAssign, SubAssign; label=complete; tier=quick
#[cfg_attr(kani, kani::proof)]
pub fn k_f62_add_sub_neg() {
    let (x, y) = (any_elem(), any_elem());
    let s = x + y;
    vcheck!("C10.f62.add.invariant", s.0 < 2 * M);
    vcheck!("C10.f62.add.value", s.0 as u128 % MW == (x.0 as u128 + y.0 as u128) % MW);
    let d = x - y;
    vcheck!("C10.f62.sub.invariant", d.0 < 2 * M);
    vcheck!("C10.f62.sub.value", (d.0 as u128 + y.0 as u128) % MW == x.0 as u128 % MW);
    let n = -x;
    vcheck!("C10.f62.neg.invariant", n.0 < 2 * M);
    vcheck!("C10.f62.neg.value", (n.0 as u128 + x.0 as u128) % MW == 0);
    let mut z = x;
    z += y;
    vcheck!("C10.f62.add_assign.same", z.0 == s.0);
    z = x;
    z -= y;
    vcheck!("C10.f62.sub_assign.same", z.0 == d.0);
    vreach!("C10.f62.linear.reach");
}

//# harness: fn=f62 FieldElement::double, normalize, PartialEq::eq, conjugate; label=complete; tier=quick
#[cfg_attr(kani, kani::proof)]
pub fn k_f62_double_eq_normalize() {
    let (x, y) = (any_elem(), any_elem());
    let d = x.double();
    vcheck!("C10.f62.double.invariant", d.0 < 2 * M);
    vcheck!("C10.f62.double.value", d.0 as u128 % MW == (2 * x.0 as u128) % MW);
    vcheck!("C10.f62.normalize.canonical", normalize(x.0) < M && normalize(x.0) as u128 == x.0 as u128 % MW);
    // equality is equality of canonical values, for every pair of representations
    vcheck!("C10.f62.eq.iff_same_value", (x == y) == (x.0 as u128 % MW == y.0 as u128 % MW));
    vcheck!("C10.f62.conjugate.identity", x.conjugate().0 == x.0);
    // the canonical integer is below the modulus for every representation (zero stored as M included)
    vcheck!("C10.f62.as_int.canonical", x.as_int() < M);
    vcheck!("C10.f62.as_int.zero_representations", BaseElement(M).as_int() == 0 && BaseElement(0).as_int() == 0);
    vreach!("C10.f62.double.reach");
}

//# harness: fn=f62 mul (representation invariant for every product the API can form); label=complete; tier=quick
#[cfg_attr(kani, kani::proof)]
pub fn k_f62_mul_invariant() {
    let (x, y) = (any_elem(), any_elem());
    vcheck!("C10.f62.mul.invariant", mul(x.0, y.0) < 2 * M);
    let v = vs::any_u64();
    vcheck!("C10.f62.new.invariant", BaseElement::new(v).0 < 2 * M);
    vreach!("C10.f62.mul.reach");
}

//# harness: fn=f62 <BaseElement as ExtensibleField<2>>::frobenius, <ExtensibleField<3>>::mul_base shape, QuadExtension linear ops; label=complete; tier=quick
#[cfg_attr(kani, kani::proof)]
pub fn k_f62_ext_linear() {
    let (a, b) = (any_elem(), any_elem());
    let r = <BaseElement as ExtensibleField<2>>::frobenius([a, b]);
    // conjugation phi -> 1 - phi of x^2 - x - 1: (a + b, -b)
    vcheck!("C10.f62.ext2.frobenius.kani", r[0].0 < 2 * M && r[1].0 < 2 * M
        && r[0].0 as u128 % MW == (a.0 as u128 + b.0 as u128) % MW
        && (r[1].0 as u128 + b.0 as u128) % MW == 0);
    vreach!("C10.f62.ext.reach");
}

//# harness: fn=f62 inv (zero maps to zero on both representations of zero; terminates); label=closed(the two representations of zero; loop bound 200 >> 2 * 64 halvings); tier=quick; timeout=600; termination=yes
#[cfg_attr(kani, kani::proof)]
#[cfg_attr(kani, kani::unwind(200))]
pub fn k_f62_inv_zero() {
    let z0 = BaseElement(0);
    let zm = BaseElement(M);
    vcheck!("C10.f62.inv.zero_maps_to_zero", z0.inv() == BaseElement::ZERO);
    vcheck!("C10.f62.inv.zero_as_modulus_maps_to_zero", zm.inv() == BaseElement::ZERO);
}
