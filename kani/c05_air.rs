//# unit: c05_air
//# crate: air
//# mount: air/src/proof/mod.rs
//# modpath: proof
//# props: C05 C07 C01
//! C05 / C07 / C01 for the `winter-air` proof components.
//!
//! * C05: every decoder and every verifier-side parser returns `Ok`/`Err` — no reachable panic,
//!   overflow, out-of-bounds index or capacity overflow — on arbitrary bytes / arbitrary arguments.
//! * C07: constructor -> encode -> decode is the identity and consumes exactly the encoding.
//! * C01: sizes the honest prover can produce (1..=255 queries, 1..=255 columns) are accepted.
#![allow(unused_imports, dead_code)]
use alloc::vec::Vec;

use crypto::{hashers::Blake3_256, MerkleTree};
use math::{fields::f128::BaseElement as F128, FieldElement, StarkField};
use utils::{vcheck, vreach, verif_support as vs, ByteReader, Deserializable, Serializable, SliceReader};

use super::*;
use crate::{BatchingMethod, FieldExtension, PartitionOptions, ProofOptions, TraceInfo};

type H = Blake3_256<F128>;
type VC = MerkleTree<H>;

fn any_field_extension() -> FieldExtension {
    let t = vs::any_u8();
    vs::assume(t <= 2);
    match t {
        0 => FieldExtension::None,
        1 => FieldExtension::Quadratic,
        _ => FieldExtension::Cubic,
    }
}
fn any_batching() -> BatchingMethod {
    let t = vs::any_u8();
    vs::assume(t <= 2);
    match t {
        0 => BatchingMethod::Linear,
        1 => BatchingMethod::Algebraic,
        _ => BatchingMethod::Horner,
    }
}

/// every argument tuple the public constructors accept (their documented preconditions)
fn any_valid_options() -> ProofOptions {
    let nq = vs::any_usize();
    let blowup_log = vs::any_u8();
    let grinding = vs::any_u32();
    let fold_log = vs::any_u8();
    let rem_log = vs::any_u8();
    vs::assume(nq >= 1 && nq <= 255);
    vs::assume(blowup_log >= 1 && blowup_log <= 7);
    vs::assume(grinding <= 32);
    vs::assume(fold_log >= 1 && fold_log <= 4);
    vs::assume(rem_log <= 8);
    let np = vs::any_usize();
    let hr = vs::any_usize();
    vs::assume(np >= 1 && np <= 16 && hr >= 1 && hr <= 256);
    ProofOptions::new(
        nq,
        1usize << blowup_log,
        grinding,
        any_field_extension(),
        1usize << fold_log,
        (1usize << rem_log) - 1,
        any_batching(),
        any_batching(),
    )
    .with_partitions(np, hr)
}

// ------------------------------------------------------------------------------------------------
// ProofOptions

//# harness: fn=ProofOptions::read_from, FieldExtension::read_from, BatchingMethod::read_from; label=complete; tier=quick; props=C05; note=loop-free decoder on an unbounded nondeterministic reader: every byte string of every length
#[cfg_attr(kani, kani::proof)]
#[cfg_attr(kani, kani::stub(alloc::fmt::format, vs::fake_format))]
pub fn k_air_options_decode() {
    let budget = vs::any_usize();
    let mut r = vs::NondetReader::new(budget);
    let _ = ProofOptions::read_from(&mut r);
    vreach!("C05.options.decode.reach");
}

//# harness: fn=ProofOptions::new, with_partitions, write_into, read_from; label=complete; tier=quick; props=C07
#[cfg_attr(kani, kani::proof)]
#[cfg_attr(kani, kani::unwind(12))]
#[cfg_attr(kani, kani::stub(alloc::fmt::format, vs::fake_format))]
pub fn k_air_options_roundtrip() {
    let o = any_valid_options();
    let mut w = vs::ArrayWriter::<10>::new();
    o.write_into(&mut w);
    vcheck!("C07.options.encoded_len", w.pos == 10);
    let mut r = SliceReader::new(&w.buf);
    let back = ProofOptions::read_from(&mut r);
    vcheck!("C07.options.roundtrip", back == Ok(o));
    vcheck!("C07.options.consumed", !r.has_more_bytes());
    vreach!("C07.options.reach");
}

// ------------------------------------------------------------------------------------------------
// TraceInfo

//# harness: fn=TraceInfo::read_from; label=bounded(all byte strings of length <= 9: every header byte, metadata <= 3 bytes); tier=quick; props=C05
#[cfg_attr(kani, kani::proof)]
#[cfg_attr(kani, kani::unwind(11))]
#[cfg_attr(kani, kani::stub(alloc::fmt::format, vs::fake_format))]
pub fn k_air_trace_info_decode() {
    let bytes: [u8; 9] = vs::any_bytes();
    let len = vs::any_usize();
    vs::assume(len <= 9);
    let mut r = SliceReader::new(&bytes[..len]);
    if let Ok(t) = TraceInfo::read_from(&mut r) {
        // decoded values satisfy the constructor's invariant (type invariant of TraceInfo)
        vcheck!("C05.trace_info.decoded_invariant",
            t.main_trace_width() >= 1 && t.width() <= 255 && t.length() >= 8 && t.length().is_power_of_two()
            && (t.aux_segment_width() != 0 || t.get_num_aux_segment_rand_elements() == 0));
    }
    vreach!("C05.trace_info.decode.reach");
}

fn any_valid_trace_info(meta_len: usize) -> TraceInfo {
    let main = vs::any_usize();
    let aux = vs::any_usize();
    let rands = vs::any_usize();
    let len_log = vs::any_u8();
    vs::assume(main >= 1 && main <= 255 && aux <= 255 && main + aux <= 255);
    vs::assume(rands <= 255);
    vs::assume(aux != 0 || rands == 0);
    vs::assume(len_log >= 3 && len_log <= 62);
    let mut meta = Vec::new();
    let mut i = 0;
    while i < meta_len {
        meta.push(vs::any_u8());
        i += 1;
    }
    TraceInfo::new_multi_segment(main, aux, rands, 1usize << len_log, meta)
}

//# harness: fn=TraceInfo::new_multi_segment, write_into, read_from; label=complete in all scalars (metadata 0 and 2 bytes); tier=quick; props=C07; uses=any_valid_trace_info; timeout=400
#[cfg_attr(kani, kani::proof)]
#[cfg_attr(kani, kani::unwind(9))]
#[cfg_attr(kani, kani::stub(alloc::fmt::format, vs::fake_format))]
pub fn k_air_trace_info_roundtrip() {
    let t = any_valid_trace_info(0);
    let mut w = vs::ArrayWriter::<6>::new();
    t.write_into(&mut w);
    vcheck!("C07.trace_info.encoded_len", w.pos == 6);
    let mut r = SliceReader::new(&w.buf);
    let back = TraceInfo::read_from(&mut r);
    vcheck!("C07.trace_info.roundtrip", back == Ok(t));
    vcheck!("C07.trace_info.consumed", !r.has_more_bytes());
    let t = any_valid_trace_info(2);
    let mut w = vs::ArrayWriter::<8>::new();
    t.write_into(&mut w);
    let mut r = SliceReader::new(&w.buf);
    let back = TraceInfo::read_from(&mut r);
    vcheck!("C07.trace_info.roundtrip_meta2", w.pos == 8 && back == Ok(t) && !r.has_more_bytes());
    vreach!("C07.trace_info.reach");
}

// ------------------------------------------------------------------------------------------------
// Context

//# harness: fn=Context::read_from, Context::num_modulus_bits, Proof::conjectured_security (ConjecturedSecurity::compute); label=bounded(all byte strings of length <= 21: metadata + modulus <= 2 bytes); tier=quick; props=C05; timeout=400
#[cfg_attr(kani, kani::proof)]
#[cfg_attr(kani, kani::unwind(23))]
#[cfg_attr(kani, kani::stub(alloc::fmt::format, vs::fake_format))]
pub fn k_air_context_decode_and_security() {
    let bytes: [u8; 21] = vs::any_bytes();
    let len = vs::any_usize();
    vs::assume(len <= 21);
    let mut r = SliceReader::new(&bytes[..len]);
    if let Ok(c) = Context::read_from(&mut r) {
        let bits = c.num_modulus_bits();
        let _ = c.lde_domain_size();
        // what AcceptableOptions::validate does first with a decoded proof
        let s = ConjecturedSecurity::compute(c.options(), bits, vs::any_u32());
        let _ = s.bits();
    }
    vreach!("C05.context.decode.reach");
}

//# harness: fn=Context::new, write_into, read_from; label=complete in all scalars (metadata empty); tier=quick; props=C07; uses=any_valid_trace_info,any_valid_options; timeout=600
#[cfg_attr(kani, kani::proof)]
#[cfg_attr(kani, kani::unwind(18))]
#[cfg_attr(kani, kani::stub(alloc::fmt::format, vs::fake_format))]
pub fn k_air_context_roundtrip() {
    let t = any_valid_trace_info(0);
    let o = any_valid_options();
    let nc = vs::any_usize();
    vs::assume(nc >= 1 && nc <= u32::MAX as usize);
    vs::assume(t.length() <= u32::MAX as usize && t.length() * o.blowup_factor() <= u32::MAX as usize);
    let c = Context::new::<F128>(t, o, nc);
    // 6 (trace info) + 1 + 16 (modulus) + 10 (options) + at most 5 (constraint count < 2^32)
    let mut w = vs::ArrayWriter::<38>::new();
    c.write_into(&mut w);
    let n = w.pos;
    vcheck!("C07.context.encoded_len", n >= 34 && n <= 38);
    let mut r = SliceReader::new(&w.buf[..n]);
    let back = Context::read_from(&mut r);
    vcheck!("C07.context.roundtrip", back == Ok(c));
    vcheck!("C07.context.consumed", !r.has_more_bytes());
    vreach!("C07.context.reach");
}

// ------------------------------------------------------------------------------------------------
// Commitments / OodFrame / Queries / Table: decoders and parsers with attacker-derived arguments

//# harness: fn=Commitments::read_from, OodFrame::read_from, Queries::read_from; label=bounded(all byte strings of length <= 6, every length-field value); tier=quick; props=C05; timeout=300
#[cfg_attr(kani, kani::proof)]
#[cfg_attr(kani, kani::unwind(9))]
#[cfg_attr(kani, kani::stub(alloc::fmt::format, vs::fake_format))]
pub fn k_air_component_decoders() {
    let bytes: [u8; 6] = vs::any_bytes();
    let len = vs::any_usize();
    vs::assume(len <= 6);
    let mut r = SliceReader::new(&bytes[..len]);
    let which = vs::any_u8();
    if which == 0 {
        let _ = Commitments::read_from(&mut r);
    } else if which == 1 {
        let _ = OodFrame::read_from(&mut r);
    } else {
        let _ = Queries::read_from(&mut r);
    }
    vreach!("C05.components.decode.reach");
}

/// Commitments holding K arbitrary payload bytes, parsed with the counts the verifier derives
/// from its AIR (concrete per instance).
fn commitments_parse<const K: usize, const N: usize>(segs: usize, layers: usize) -> bool {
    let mut enc = [0u8; N];
    enc[0] = K as u8;
    enc[1] = (K >> 8) as u8;
    let payload: [u8; K] = vs::any_bytes();
    enc[2..].copy_from_slice(&payload);
    let mut r = SliceReader::new(&enc);
    let c = Commitments::read_from(&mut r).unwrap();
    c.parse::<H>(segs, layers).is_ok()
}

//# harness: fn=Commitments::parse; label=bounded(payload 33, 96, 97, 128 bytes, contents symbolic; 1-2 segments, 0-1 FRI layers); tier=quick; props=C05; uses=commitments_parse; timeout=300
#[cfg_attr(kani, kani::proof)]
#[cfg_attr(kani, kani::unwind(130))]
#[cfg_attr(kani, kani::stub(alloc::fmt::format, vs::fake_format))]
pub fn k_air_commitments_parse() {
    // digests are 32 bytes: parse succeeds exactly when the payload is segs + 1 + layers + 1 digests
    vcheck!("C05.commitments.parse.short", !commitments_parse::<33, 35>(1, 0));
    vcheck!("C05.commitments.parse.exact", commitments_parse::<96, 98>(1, 0));
    vcheck!("C05.commitments.parse.unconsumed", !commitments_parse::<97, 99>(1, 0));
    vcheck!("C05.commitments.parse.exact2", commitments_parse::<128, 130>(2, 0) && commitments_parse::<128, 130>(1, 1));
    vreach!("C05.commitments.reach");
}

/// OodFrame with T trace-state bytes and Q quotient bytes, main width 1, aux width `aux`, one
/// quotient column. `frame` = Some(b): the two frame-size bytes are the concrete value b and all
/// other bytes are arbitrary; None: every byte is arbitrary.
fn ood_parse<const T: usize, const Q: usize, const N: usize>(aux: usize, frame: Option<u8>) {
    let mut enc = [0u8; N];
    enc[0] = T as u8;
    enc[1] = (T >> 8) as u8;
    let tb: [u8; T] = vs::any_bytes();
    enc[2..2 + T].copy_from_slice(&tb);
    enc[2 + T] = Q as u8;
    enc[3 + T] = (Q >> 8) as u8;
    let qb: [u8; Q] = vs::any_bytes();
    enc[4 + T..].copy_from_slice(&qb);
    if let Some(b) = frame {
        enc[2] = b;
        enc[4 + T] = b;
    }
    let mut r = SliceReader::new(&enc);
    let f = OodFrame::read_from(&mut r).unwrap();
    let res = f.parse::<F128>(1, aux, 1);
    if let Ok((tf, qf)) = res {
        vcheck!("C05.ood.parse.ok_shape", T == 1 + 32 * (1 + aux) && Q == 33 && enc[2] == 2 && enc[4 + T] == 2);
        vcheck!("C05.ood.parse.widths", tf.current_row().len() == 1 + aux && qf.current_row().len() == 1);
    }
}

//# harness: fn=OodFrame::parse; label=bounded(1-byte parts: every frame-size byte); tier=quick; props=C05; uses=ood_parse; timeout=400
#[cfg_attr(kani, kani::proof)]
#[cfg_attr(kani, kani::unwind(4))]
#[cfg_attr(kani, kani::stub(alloc::fmt::format, vs::fake_format))]
pub fn k_air_ood_frame_parse_small() {
    ood_parse::<1, 1, 6>(0, None);
    vreach!("C05.ood_frame_small.reach");
}

//# harness: fn=OodFrame::parse; label=bounded(full 33/33-byte frames and a truncated quotient part, symbolic elements); tier=thorough; props=C05; uses=ood_parse; timeout=900
#[cfg_attr(kani, kani::proof)]
#[cfg_attr(kani, kani::unwind(6))]
#[cfg_attr(kani, kani::stub(alloc::fmt::format, vs::fake_format))]
pub fn k_air_ood_frame_parse() {
    ood_parse::<33, 33, 70>(0, Some(2));
    ood_parse::<33, 1, 38>(0, Some(2));
    vreach!("C05.ood_frame.reach");
}

// Queries::parse is not under contract here: its inputs are heap vectors whose lengths the model
// checker cannot keep concrete (symbolic execution does not terminate within 15 minutes even for a
// 20-byte instance); its callee Table::from_bytes is under contract below; BatchMerkleProof::read_from
// is not (see the note in the c19_merkle unit), only its component decoders are (c26_serde unit).

// C07: Commitments (one trace root, the constraint root, one FRI root) and a digest survive the round trip
//# harness: fn=Commitments::new, write_into, read_from; Deserializable / Serializable for ByteDigest<32>; label=bounded(3 digests of 32 symbolic bytes); tier=quick; props=C07; timeout=900
#[cfg_attr(kani, kani::proof)]
#[cfg_attr(kani, kani::unwind(100))]
#[cfg_attr(kani, kani::stub(alloc::fmt::format, vs::fake_format))]
pub fn k_air_commitments_roundtrip() {
    use crypto::Hasher;
    type Dg = <H as Hasher>::Digest;
    let raw: [u8; 96] = vs::any_bytes();
    let mut r = SliceReader::new(&raw);
    let d0 = Dg::read_from(&mut r).unwrap();
    let d1 = Dg::read_from(&mut r).unwrap();
    let d2 = Dg::read_from(&mut r).unwrap();
    // a digest is its 32 bytes
    let mut wd = vs::ArrayWriter::<32>::new();
    d0.write_into(&mut wd);
    let mut same = wd.pos == 32;
    let mut i = 0;
    while i < 32 {
        same = same && wd.buf[i] == raw[i];
        i += 1;
    }
    vcheck!("C07.digest.roundtrip", same);
    let c = Commitments::new::<H>(alloc::vec![d0], d1, alloc::vec![d2]);
    let mut w = vs::ArrayWriter::<98>::new();
    c.write_into(&mut w);
    vcheck!("C07.commitments.encoded_len", w.pos == 98);
    let mut r = SliceReader::new(&w.buf);
    let back = Commitments::read_from(&mut r);
    vcheck!("C07.commitments.roundtrip", back == Ok(c));
    vcheck!("C07.commitments.consumed", !r.has_more_bytes());
    vreach!("C07.commitments.reach");
}

// (A guard for repaired defect F8a - Queries::parse must return Err for a unique-query count of 0 or above 255 -
// was attempted with empty query data and only the count symbolic: CBMC aborts in propositional reduction, as on
// every other instantiation of Queries::parse tried. The repair is NOT guarded by an obligation; stated in
// known_findings.json.)

//# harness: fn=Table::from_bytes; label=complete in (rows, cols) over the sizes an honest prover can produce (1..=255 each); tier=quick; props=C01,C05
#[cfg_attr(kani, kani::proof)]
#[cfg_attr(kani, kani::unwind(3))]
#[cfg_attr(kani, kani::stub(alloc::fmt::format, vs::fake_format))]
pub fn k_air_table_sizes() {
    let rows = vs::any_usize();
    let cols = vs::any_usize();
    vs::assume(rows >= 1 && rows <= 255 && cols >= 1 && cols <= 255);
    // too few bytes: must be an error, never a panic, for every admissible size
    let bytes = [0u8; 1];
    let r = Table::<F128>::from_bytes(&bytes, rows, cols);
    vcheck!("C01.table.sizes_up_to_255_accepted", r.is_err());
    vreach!("C01.table.reach");
}
