"""Per-property configuration: which units decide it, claimed level, trusted base."""

PROPS = {
    "C10": {
        "level": "proof",
        "kani": ["c10_f64"],
        "verus": ["f64_core", "f62_core"],
        "level_text": "Exact modular contracts (requires/ensures) on the real text of the base-field primitives, "
                      "discharged for all inputs: Verus for the Montgomery cores of f64 and f62, Kani over the full "
                      "2^64 x 2^64 domain for the linear operations and equality.",
        "level_note": "Trusted: Verus/Z3, Kani/CBMC, vstd specs, assume_specification for u64::overflowing_add/sub. "
                      "Not under contract yet: exp, inv, extension-field formulas, f128 mul (see evidence).",
        "trusted": [],
        "assumptions": [],
        "explanation": "",
    },
}

NOT_APPLICABLE = {
    "C02": "soundness is a probabilistic statement over the verifier's challenges and an idealised hash; no pre/postcondition on a winterfell function expresses it (deterministic necessary conditions are claimed under C03, C09, C24)",
    "C04": "2-safety property of the whole verifier over pairs of byte strings, relying on collision resistance; the per-field canonical-decoding facts are claimed under C07, C11, C26 and commitment binding under C03",
    "C06": "thread schedules and feature builds: Kani has no thread support and Verus cannot ingest rayon; different feature builds can only be compared by running them, which is another technique",
    "C08": "needs the inductive algebraic argument that apply_drp equals the verifier's interpolation at every layer over every field; beyond both verifiers (SAT budget is ~5 symbolic field elements at F_17)",
    "C27": "ReadAdapter is RefCell<BufReader<&mut dyn Read>> plus raw-pointer copies: rejected by Verus, and CBMC exhausted 62 GB on a 24-byte/4-operation instance",
}
for _p in ["C01", "C03", "C05", "C07", "C09", "C11", "C12", "C13", "C14", "C15", "C16", "C17", "C18", "C19", "C20",
           "C21", "C22", "C23", "C24", "C25", "C26", "C28", "C29"]:
    NOT_APPLICABLE.setdefault(_p, "check not built yet (planned, see DESIGN.md section 4)")
