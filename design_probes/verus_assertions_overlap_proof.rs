use vstd::prelude::*;
use vstd::arithmetic::div_mod::*;
use vstd::arithmetic::mul::*;
verus! {
pub const NO_STRIDE: usize = 0;

pub struct Assertion {
    pub column: usize,
    pub first_step: usize,
    pub stride: usize,
    pub values: Vec<u64>,
}

pub open spec fn is_pow2(n: int) -> bool
    decreases n
{
    if n <= 0 { false } else if n == 1 { true } else { n % 2 == 0 && is_pow2(n / 2) }
}

// smaller power of two divides larger power of two
proof fn lemma_pow2_divides(a: int, b: int)
    requires is_pow2(a), is_pow2(b), a <= b,
    ensures b % a == 0,
    decreases b
{
    if a == b {
        lemma_mod_self_0(a);
    } else {
        // b > a >= 1 so b >= 2, b even, b/2 is pow2 and a <= b/2
        assert(b > 1);
        assert(b % 2 == 0 && is_pow2(b / 2));
        if a > b / 2 {
            // a is pow2 with b/2 < a < b: impossible
            lemma_pow2_gap(a, b / 2);
        }
        lemma_pow2_divides(a, b / 2);
        // (b/2) % a == 0 ==> b % a == 0
        let h = b / 2;
        assert(b == 2 * h);
        lemma_fundamental_div_mod(h, a);
        let k = h / a;
        assert(h == a * k);
        assert(b == a * (2 * k)) by (nonlinear_arith) requires b == 2 * h, h == a * k;
        lemma_mod_multiples_basic(2 * k, a);
        assert((2 * k) * a == a * (2 * k)) by (nonlinear_arith);
    }
}
// no power of two strictly between h and 2h
proof fn lemma_pow2_gap(a: int, h: int)
    requires is_pow2(a), is_pow2(h), h < a, a < 2 * h,
    ensures false,
    decreases h
{
    if h == 1 {
        // 1 < a < 2 impossible
    } else {
        assert(a > 1);
        assert(a % 2 == 0 && is_pow2(a / 2));
        assert(h % 2 == 0 && is_pow2(h / 2));
        lemma_pow2_gap(a / 2, h / 2);
    }
}
proof fn lemma_mod_trans(x: int, b: int, a: int)
    requires a > 0, b > 0, x % b == 0, b % a == 0,
    ensures x % a == 0,
{
    lemma_fundamental_div_mod(x, b);
    lemma_fundamental_div_mod(b, a);
    let k = x / b; let j = b / a;
    assert(x == a * (j * k)) by (nonlinear_arith) requires x == b * k, b == a * j;
    lemma_mod_multiples_basic(j * k, a);
    assert((j * k) * a == a * (j * k)) by (nonlinear_arith);
}
proof fn lemma_diff_mod(x: int, y: int, m: int)
    requires m > 0, x % m == 0, y % m == 0,
    ensures (x - y) % m == 0,
{
    lemma_sub_mod_noop(x, y, m);
    lemma_small_mod(0nat, m as nat);
}
proof fn lemma_small_nonzero(d: int, m: int)
    requires 0 < d < m,
    ensures d % m != 0,
{
    lemma_small_mod(d as nat, m as nat);
}

impl Assertion {
    pub open spec fn wf(&self) -> bool {
        &&& self.values.len() >= 1
        &&& (self.stride == 0 ==> self.values.len() == 1)
        &&& (self.stride != 0 ==> is_pow2(self.stride as int) && self.stride >= 2 && self.first_step < self.stride)
    }
    pub open spec fn covers(&self, n: int, s: int) -> bool {
        if self.stride == 0 { s == self.first_step }
        else { 0 <= s < n && s >= self.first_step && (s - self.first_step) % (self.stride as int) == 0 }
    }
    pub open spec fn fits(&self, n: int) -> bool {
        &&& is_pow2(n)
        &&& (self.stride == 0 ==> self.first_step < n)
        &&& (self.stride != 0 && self.values.len() == 1 ==> self.stride <= n)
        &&& (self.values.len() > 1 ==> self.values.len() * self.stride == n)
    }
    pub open spec fn common(&self, other: &Assertion, n: int) -> bool {
        exists|s: int| self.covers(n, s) && other.covers(n, s)
    }

    proof fn lemma_in_range(&self, n: int)
        requires self.wf(), self.fits(n),
        ensures self.first_step < n, self.stride != 0 ==> self.stride <= n,
    {
        if self.stride != 0 && self.values.len() > 1 {
            assert(self.stride as int <= self.values.len() * self.stride) by (nonlinear_arith)
                requires self.values.len() >= 1, self.stride >= 0;
        }
    }
    // the first step of an assertion is one of its steps
    proof fn lemma_first_covered(&self, n: int)
        requires self.wf(), self.fits(n),
        ensures self.covers(n, self.first_step as int),
    {
        self.lemma_in_range(n);
        if self.stride != 0 { lemma_small_mod(0nat, self.stride as nat); }
    }
    // two strided assertions, a's first step below b's: a common step exists iff stride_a | (fb - fa) when stride_a < stride_b,
    // and never when stride_a >= stride_b
    proof fn lemma_strided(&self, other: &Assertion, n: int)
        requires self.wf(), other.wf(), self.fits(n), other.fits(n),
                 self.stride != 0, other.stride != 0, self.first_step < other.first_step,
        ensures
            self.stride < other.stride ==> (self.common(other, n) <==> (other.first_step - self.first_step) % (self.stride as int) == 0),
            self.stride >= other.stride ==> !self.common(other, n),
    {
        let fa = self.first_step as int; let fb = other.first_step as int;
        let sa = self.stride as int; let sb = other.stride as int;
        self.lemma_in_range(n); other.lemma_in_range(n);
        if sa < sb {
            lemma_pow2_divides(sa, sb);
            if (fb - fa) % sa == 0 {
                other.lemma_first_covered(n);
                assert(self.covers(n, fb));
            }
            assert forall|s: int| self.covers(n, s) && other.covers(n, s) implies (fb - fa) % sa == 0 by {
                lemma_mod_trans(s - fb, sb, sa);
                lemma_diff_mod(s - fa, s - fb, sa);
            }
        } else {
            lemma_pow2_divides(sb, sa);
            assert forall|s: int| self.covers(n, s) && other.covers(n, s) implies false by {
                lemma_mod_trans(s - fa, sa, sb);
                lemma_diff_mod(s - fa, s - fb, sb);
                lemma_small_nonzero(fb - fa, sb);
            }
        }
    }

    pub fn is_single(&self) -> (r: bool)
        ensures r == (self.stride == NO_STRIDE)
    {
        self.stride == NO_STRIDE
    }

    pub fn overlaps_with(&self, other: &Assertion) -> (r: bool)
        requires self.wf(), other.wf(),
        ensures forall|n: int| #![trigger self.fits(n), other.fits(n)] self.fits(n) && other.fits(n) ==>
            (r <==> (self.column == other.column && self.common(other, n))),
    {
        if self.column != other.column {
            return false;
        }
        if self.first_step == other.first_step {
            proof {
                assert forall|n: int| #![trigger self.fits(n), other.fits(n)] self.fits(n) && other.fits(n) implies self.common(other, n) by {
                    self.lemma_first_covered(n); other.lemma_first_covered(n);
                }
            }
            return true;
        }
        if self.stride == other.stride {
            proof {
                assert forall|n: int| #![trigger self.fits(n), other.fits(n)] self.fits(n) && other.fits(n) implies !self.common(other, n) by {
                    if self.stride != 0 {
                        let st = self.stride as int;
                        assert forall|s: int| self.covers(n, s) && other.covers(n, s) implies false by {
                            if self.first_step < other.first_step {
                                lemma_diff_mod(s - self.first_step, s - other.first_step, st);
                                lemma_small_nonzero(other.first_step - self.first_step, st);
                            } else {
                                lemma_diff_mod(s - other.first_step, s - self.first_step, st);
                                lemma_small_nonzero(self.first_step - other.first_step, st);
                            }
                        }
                    }
                }
            }
            return false;
        }

        if self.first_step < other.first_step {
            if self.is_single() {
                return false;
            }
            if other.is_single() || self.stride < other.stride {
                proof {
                    assert forall|n: int| #![trigger self.fits(n), other.fits(n)] self.fits(n) && other.fits(n) implies
                        (self.common(other, n) <==> (other.first_step - self.first_step) % (self.stride as int) == 0) by {
                        if other.stride == 0 {
                            other.lemma_in_range(n);
                            if (other.first_step - self.first_step) % (self.stride as int) == 0 {
                                assert(self.covers(n, other.first_step as int) && other.covers(n, other.first_step as int));
                            }
                        } else {
                            self.lemma_strided(other, n);
                        }
                    }
                }
                (other.first_step - self.first_step).is_multiple_of(self.stride)
            } else {
                proof {
                    assert forall|n: int| #![trigger self.fits(n), other.fits(n)] self.fits(n) && other.fits(n) implies !self.common(other, n) by {
                        self.lemma_strided(other, n);
                    }
                }
                false
            }
        } else {
            if other.is_single() {
                return false;
            }
            if self.is_single() || other.stride < self.stride {
                proof {
                    assert forall|n: int| #![trigger self.fits(n), other.fits(n)] self.fits(n) && other.fits(n) implies
                        (self.common(other, n) <==> (self.first_step - other.first_step) % (other.stride as int) == 0) by {
                        if self.stride == 0 {
                            self.lemma_in_range(n);
                            if (self.first_step - other.first_step) % (other.stride as int) == 0 {
                                assert(self.covers(n, self.first_step as int) && other.covers(n, self.first_step as int));
                            }
                        } else {
                            other.lemma_strided(self, n);
                            assert(other.common(self, n) <==> self.common(other, n));
                        }
                    }
                }
                (self.first_step - other.first_step).is_multiple_of(other.stride)
            } else {
                proof {
                    assert forall|n: int| #![trigger self.fits(n), other.fits(n)] self.fits(n) && other.fits(n) implies !self.common(other, n) by {
                        other.lemma_strided(self, n);
                        assert(other.common(self, n) <==> self.common(other, n));
                    }
                }
                false
            }
        }
    }
}
}
fn main(){}
