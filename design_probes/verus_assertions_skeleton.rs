use vstd::prelude::*;
verus! {
pub const NO_STRIDE: usize = 0;

pub struct Assertion {
    pub column: usize,
    pub first_step: usize,
    pub stride: usize,
    pub values: Vec<u64>,
}

pub open spec fn is_pow2(n: int) -> bool
    decreases n
{
    if n <= 0 { false } else if n == 1 { true } else { n % 2 == 0 && is_pow2(n / 2) }
}



impl Assertion {
    // type invariant established by the public constructors
    pub open spec fn wf(&self) -> bool {
        &&& self.values.len() >= 1
        &&& (self.stride == 0 ==> self.values.len() == 1)
        &&& (self.stride != 0 ==> is_pow2(self.stride as int) && self.stride >= 2 && self.first_step < self.stride)
    }
    // the documented step set, as a predicate on steps, for a trace of length n the assertion fits
    pub open spec fn covers(&self, n: int, s: int) -> bool {
        if self.stride == 0 { s == self.first_step }
        else { 0 <= s < n && s >= self.first_step && (s - self.first_step) % (self.stride as int) == 0 }
    }
    pub open spec fn fits(&self, n: int) -> bool {
        &&& is_pow2(n)
        &&& (self.stride == 0 ==> self.first_step < n)
        &&& (self.stride != 0 && self.values.len() == 1 ==> self.stride <= n)
        &&& (self.values.len() > 1 ==> self.values.len() * self.stride == n)
    }

    pub fn is_single(&self) -> (r: bool)
        ensures r == (self.stride == NO_STRIDE)
    {
        self.stride == NO_STRIDE
    }

    pub fn overlaps_with(&self, other: &Assertion) -> (r: bool)
        requires self.wf(), other.wf(),
        ensures forall|n: int| #![trigger self.fits(n), other.fits(n)] self.fits(n) && other.fits(n) ==>
            (r <==> (self.column == other.column && exists|s: int| self.covers(n, s) && other.covers(n, s))),
    {
        if self.column != other.column {
            return false;
        }
        if self.first_step == other.first_step {
            proof { admit(); }
            return true;
        }
        if self.stride == other.stride {
            proof { admit(); }
            return false;
        }

        if self.first_step < other.first_step {
            if self.is_single() {
                proof { admit(); }
                return false;
            }
            if other.is_single() || self.stride < other.stride {
                proof { admit(); }
                (other.first_step - self.first_step).is_multiple_of(self.stride)
            } else {
                proof { admit(); }
                false
            }
        } else {
            if other.is_single() {
                proof { admit(); }
                return false;
            }
            if self.is_single() || other.stride < self.stride {
                proof { admit(); }
                (self.first_step - other.first_step).is_multiple_of(other.stride)
            } else {
                proof { admit(); }
                false
            }
        }
    }
}
}
fn main(){}
