"""Verus unit: f128 core — real text of add, sub, mul (the 128x128 -> 256 bit product with the two-step
reduction by 2^128 = 45 * 2^40 - 1 mod p), its limb helpers, BaseElement::new, the operator impls and the
quadratic extension, against exact modular contracts: for all canonical operands the result is canonical
and equals the integer result modulo p = 2^128 - 45 * 2^40 + 1."""

F = "math/src/field/f128/mod.rs"

PRELUDE = r'''
pub open spec fn P() -> int { 340282366920938463463374557953744961537 }
pub open spec fn B64() -> int { 0x1_0000_0000_0000_0000 }
pub open spec fn B128() -> int { 0xffff_ffff_ffff_ffff_ffff_ffff_ffff_ffffint + 1 }
// 2^128 - p = 45 * 2^40 - 1
pub open spec fn C() -> int { 49478023249919 }
// value of a little-endian limb vector
pub open spec fn v2(a0: u64, a1: u64) -> int { a0 as int + a1 as int * B64() }
pub open spec fn v3(a0: u64, a1: u64, a2: u64) -> int { a0 as int + a1 as int * B64() + a2 as int * B128() }

// (not used by the code as it stands; specified so that a helper rewritten with these std functions can still be
// checked against its contract instead of being rejected as unsupported)
pub assume_specification[ u64::overflowing_add ](a: u64, b: u64) -> (r: (u64, bool))
    ensures r.0 == a.wrapping_add(b), r.1 == (a as int + b as int >= 0x1_0000_0000_0000_0000);
pub assume_specification[ u64::overflowing_sub ](a: u64, b: u64) -> (r: (u64, bool))
    ensures r.0 == a.wrapping_sub(b), r.1 == ((a as int) < (b as int));

proof fn lemma_wsub128(x: u128, y: u128)
    ensures x.wrapping_sub(y) == vstd::prelude::sub(x, y)
{
    assert(x >= y ==> vstd::prelude::sub(x, y) == (x - y) as u128) by (bit_vector);
    assert(x < y ==> vstd::prelude::sub(x, y) as int == x as int - y as int + B128()) by {
        assert(x < y ==> vstd::prelude::sub(x, y) == vstd::prelude::add(vstd::prelude::sub(0xffff_ffff_ffff_ffff_ffff_ffff_ffff_ffffu128, y), vstd::prelude::add(x, 1u128))) by (bit_vector);
        assert(vstd::prelude::sub(0xffff_ffff_ffff_ffff_ffff_ffff_ffff_ffffu128, y) == (0xffff_ffff_ffff_ffff_ffff_ffff_ffff_ffffu128 - y) as u128) by (bit_vector);
        assert(x < y ==> vstd::prelude::add(x, 1u128) == (x + 1) as u128) by (bit_vector);
        assert(x < y ==> vstd::prelude::add(vstd::prelude::sub(0xffff_ffff_ffff_ffff_ffff_ffff_ffff_ffffu128, y), vstd::prelude::add(x, 1u128))
            == (vstd::prelude::sub(0xffff_ffff_ffff_ffff_ffff_ffff_ffff_ffffu128, y) + vstd::prelude::add(x, 1u128)) as u128) by (bit_vector);
    }
}
// one limb of a multi-limb subtraction with borrow
proof fn lemma_limb_sub(a: u64, b: u64, bw: u128, z: u128)
    requires bw <= 1, z == (a as u128).wrapping_sub((b as u128 + bw) as u128),
    ensures
        (z >> 127) == (if (a as int) < b as int + bw as int { 1u128 } else { 0u128 }),
        (z as u64) as int == a as int - b as int - bw as int + (if (a as int) < b as int + bw as int { B64() } else { 0 }),
{
    let x = a as u128;
    let y = (b as u128 + bw) as u128;
    lemma_wsub128(x, y);
    assert(vstd::prelude::sub(x, y) >> 127 == (if x < y { 1u128 } else { 0u128 })) by (bit_vector)
        requires x < 0x1_0000_0000_0000_0000u128, y <= 0x1_0000_0000_0000_0000u128;
    assert(x < y ==> (vstd::prelude::sub(x, y) as u64) as u128 == x + 0x1_0000_0000_0000_0000u128 - y) by (bit_vector)
        requires x < 0x1_0000_0000_0000_0000u128, y <= 0x1_0000_0000_0000_0000u128;
    assert(x >= y ==> (vstd::prelude::sub(x, y) as u64) as u128 == x - y) by (bit_vector)
        requires x < 0x1_0000_0000_0000_0000u128, y <= 0x1_0000_0000_0000_0000u128;
}
// a 128-bit value is its two 64-bit halves
proof fn lemma_split128(x: u128)
    ensures x as int == ((x >> 64) as u64) as int * B64() + (x as u64) as int, (x >> 64) as int == ((x >> 64) as u64) as int,
            (x >> 64) <= 0xffff_ffff_ffff_ffffu128,
{
    assert(x == vstd::prelude::add(((x >> 64) as u64 as u128) << 64, (x as u64) as u128)) by (bit_vector);
    assert(((x >> 64) as u64 as u128) << 64 == ((x >> 64) as u64 as u128) * 0x1_0000_0000_0000_0000u128) by (bit_vector);
    assert((x >> 64) as u64 as u128 == x >> 64) by (bit_vector);
    assert((x >> 64) <= 0xffff_ffff_ffff_ffffu128) by (bit_vector);
}
proof fn lemma_sub_mod_small(v: int, s: int)
    requires s == (v + C()) % B128(), 0 <= v, v + C() < B128(),
    ensures s == v + C(),
{ vstd::arithmetic::div_mod::lemma_small_mod((v + C()) as nat, B128() as nat); }
proof fn lemma_sub_mod_wrap(v: int, s: int)
    requires s == (v + C()) % B128(), B128() <= v + C() < 2 * B128(),
    ensures s == v + C() - B128(),
{
    vstd::arithmetic::div_mod::lemma_mod_multiples_vanish(-1, v + C(), B128());
    vstd::arithmetic::div_mod::lemma_small_mod((v + C() - B128()) as nat, B128() as nat);
}
// x - k*p is congruent to x
proof fn lemma_congr_sub(x: int, k: int)
    ensures (x - k * P()) % P() == x % P(),
{
    vstd::arithmetic::div_mod::lemma_mod_multiples_vanish(-k, x, P());
    assert(P() * (-k) + x == x - k * P()) by (nonlinear_arith);
}
'''

OPS_SPECS = r"""
impl Copy for BaseElement {}
impl Clone for BaseElement { fn clone(&self) -> Self { *self } }
// type invariant: canonical representation
pub open spec fn wf(e: BaseElement) -> bool { (e.0 as int) < P() }
pub open spec fn val(e: BaseElement) -> int { e.0 as int }

impl vstd::std_specs::ops::AddSpecImpl<BaseElement> for BaseElement {
    open spec fn obeys_add_spec() -> bool { false }
    open spec fn add_req(self, rhs: BaseElement) -> bool { wf(self) && wf(rhs) }
    open spec fn add_spec(self, rhs: BaseElement) -> BaseElement { arbitrary() }
}
impl vstd::std_specs::ops::SubSpecImpl<BaseElement> for BaseElement {
    open spec fn obeys_sub_spec() -> bool { false }
    open spec fn sub_req(self, rhs: BaseElement) -> bool { wf(self) && wf(rhs) }
    open spec fn sub_spec(self, rhs: BaseElement) -> BaseElement { arbitrary() }
}
impl vstd::std_specs::ops::MulSpecImpl<BaseElement> for BaseElement {
    open spec fn obeys_mul_spec() -> bool { false }
    open spec fn mul_req(self, rhs: BaseElement) -> bool { wf(self) && wf(rhs) }
    open spec fn mul_spec(self, rhs: BaseElement) -> BaseElement { arbitrary() }
}
impl vstd::std_specs::ops::NegSpecImpl for BaseElement {
    open spec fn obeys_neg_spec() -> bool { false }
    open spec fn neg_req(self) -> bool { wf(self) }
    open spec fn neg_spec(self) -> BaseElement { arbitrary() }
}
// reduced declaration of math/src/field/traits.rs `FieldElement` (the constant used by the code under contract)
pub trait FieldElement: Sized {
    const ZERO: Self;
}
// ASSUMED: the trait constant ZERO = BaseElement(0) (Verus does not evaluate trait consts; Kani obligation
// C10.f128.constants.zero_one checks it on the real code)
pub proof fn axiom_zero()
    ensures (<BaseElement as FieldElement>::ZERO).0 == 0,
{ admit(); }
// reduced declaration of math/src/field/traits.rs `ExtensibleField<N>` (the methods under contract)
pub trait ExtensibleField<const N: usize>: Sized {
    spec fn wf_x(a: [Self; N]) -> bool;
    spec fn wf_b(b: Self) -> bool;
    fn mul(a: [Self; N], b: [Self; N]) -> (r: [Self; N])
        requires Self::wf_x(a), Self::wf_x(b);
    fn mul_base(a: [Self; N], b: Self) -> (r: [Self; N])
        requires Self::wf_x(a), Self::wf_b(b);
    fn frobenius(x: [Self; N]) -> (r: [Self; N])
        requires Self::wf_x(x);
}
"""

GH_CARRY = r'''
    proof { lemma_split128(ret); }
'''
GH_M64_START = r'''
    proof {
        lemma_split128(a);
        assert(((a as u64) as u128) * (b as u128) <= 0xffff_ffff_ffff_ffffu128 * 0xffff_ffff_ffff_ffffu128) by (nonlinear_arith)
            requires (a as u64) as u128 <= 0xffff_ffff_ffff_ffffu128, (b as u128) <= 0xffff_ffff_ffff_ffffu128;
        assert((a >> 64) * (b as u128) <= 0xffff_ffff_ffff_ffffu128 * 0xffff_ffff_ffff_ffffu128) by (nonlinear_arith)
            requires (a >> 64) <= 0xffff_ffff_ffff_ffffu128, (b as u128) <= 0xffff_ffff_ffff_ffffu128;
        assert forall|x: u128| (#[trigger] (x >> 64)) <= 0xffff_ffff_ffff_ffffu128 by { lemma_split128(x); }
    }
'''
GH_M64_END = r'''
    proof {
        lemma_split128(z_lo);
        lemma_split128(z_hi);
        let al = (a as u64) as int; let ah = (a >> 64) as int; let bi = b as int;
        let zh = ((z_hi >> 64) as u64) as int; let zm = (z_hi as u64) as int;
        assert(a as int * bi == ah * bi * B64() + al * bi) by (nonlinear_arith)
            requires a as int == ah * B64() + al;
        assert(z_hi as int * B64() == (ah * bi) * B64() + (z_lo >> 64) as int * B64()) by (nonlinear_arith)
            requires z_hi as int == ah * bi + (z_lo >> 64) as int;
        assert(zh * B128() == (zh * B64()) * B64()) by (nonlinear_arith) requires B128() == B64() * B64();
        assert(z_hi as int * B64() == (zh * B64()) * B64() + zm * B64()) by (nonlinear_arith)
            requires z_hi as int == zh * B64() + zm;
    }
'''
GH_MBM = r'''
    proof {
        let ai = a as int;
        assert(a_lo as int == (ai * P()) % B128());
        lemma_split128(a_lo);
        if a == 0 {
            assert(ai * P() == 0);
        } else {
            // a*p = (a - 1) * 2^128 + (2^128 - a*C), with 0 < a*C < 2^128
            assert(ai * P() == (ai - 1) * B128() + (B128() - ai * C())) by (nonlinear_arith)
                requires P() == B128() - C();
            assert(0 < ai * C() < B128()) by (nonlinear_arith)
                requires 0 < ai < B64(), C() == 49478023249919, B128() == B64() * B64(), B64() == 0x1_0000_0000_0000_0000;
            vstd::arithmetic::div_mod::lemma_mod_multiples_vanish(ai - 1, B128() - ai * C(), B128());
            vstd::arithmetic::div_mod::lemma_small_mod((B128() - ai * C()) as nat, B128() as nat);
        }
    }
'''
GH_SUBMOD = r'''
    proof {
        assert(((a_hi as u128) << 64) == (a_hi as u128) * 0x1_0000_0000_0000_0000u128) by (bit_vector);
        lemma_split128(z);
        let s = C() + a_lo as int + a_hi as int * B64();
        assert(z as int == if s >= B128() { s - B128() } else { s });
        if s >= B128() {
            vstd::arithmetic::div_mod::lemma_mod_multiples_vanish(-1, s, B128());
            vstd::arithmetic::div_mod::lemma_small_mod((s - B128()) as nat, B128() as nat);
        } else {
            vstd::arithmetic::div_mod::lemma_small_mod(s as nat, B128() as nat);
        }
    }
'''
GH_SUB192 = r'''
    proof {
        lemma_limb_sub(a0, b0, 0, z0);
        lemma_limb_sub(a1, b1, z0 >> 127, z1);
        lemma_limb_sub(a2, b2, z1 >> 127, z2);
        let k0: int = if (a0 as int) < b0 as int { 1 } else { 0 };
        let k1: int = if (a1 as int) < b1 as int + k0 { 1 } else { 0 };
        let k2: int = if (a2 as int) < b2 as int + k1 { 1 } else { 0 };
        assert(v3(z0 as u64, z1 as u64, z2 as u64) == v3(a0, a1, a2) - v3(b0, b1, b2) + k2 * (B64() * B128())) by (nonlinear_arith)
            requires
                (z0 as u64) as int == a0 as int - b0 as int + k0 * B64(),
                (z1 as u64) as int == a1 as int - b1 as int - k0 + k1 * B64(),
                (z2 as u64) as int == a2 as int - b2 as int - k1 + k2 * B64(),
                B128() == B64() * B64(),
                v3(z0 as u64, z1 as u64, z2 as u64) == (z0 as u64) as int + (z1 as u64) as int * B64() + (z2 as u64) as int * B128(),
                v3(a0, a1, a2) == a0 as int + a1 as int * B64() + a2 as int * B128(),
                v3(b0, b1, b2) == b0 as int + b1 as int * B64() + b2 as int * B128();
        // no borrow out of the top limb because a >= b
        assert(v3(z0 as u64, z1 as u64, z2 as u64) < B64() * B128()) by (nonlinear_arith)
            requires v3(z0 as u64, z1 as u64, z2 as u64) == (z0 as u64) as int + (z1 as u64) as int * B64() + (z2 as u64) as int * B128(),
                (z0 as u64) as int <= 0xffff_ffff_ffff_ffff, (z1 as u64) as int <= 0xffff_ffff_ffff_ffff, (z2 as u64) as int <= 0xffff_ffff_ffff_ffff,
                B64() == 0x1_0000_0000_0000_0000, B128() == B64() * B64();
        assert(k2 == 0) by (nonlinear_arith)
            requires 0 <= k2 <= 1, v3(a0, a1, a2) - v3(b0, b1, b2) >= 0,
                v3(z0 as u64, z1 as u64, z2 as u64) == v3(a0, a1, a2) - v3(b0, b1, b2) + k2 * (B64() * B128()),
                v3(z0 as u64, z1 as u64, z2 as u64) < B64() * B128();
    }
'''
GH_REDUCE = r'''
    proof {
        assert(z2 as int * P() <= z2 as int * B128()) by (nonlinear_arith) requires 0 <= z2 as int, P() <= B128();
    }
'''

# ---- mul: ghost state and proof steps ----------------------------------------------------------
GH_MUL_0 = r'''
    let ghost bh = (b >> 64) as u64;
    let ghost bl = b as u64;
    proof {
        lemma_split128(b);
        assert(b as int == bh as int * B64() + bl as int);
    }
'''
GH_MUL_1 = r'''
    let ghost xa = v3(x0, x1, x2);
    let ghost x2a = x2;
'''
GH_MUL_2 = r'''
    let ghost xb = v3(x0, x1, x2);
    let ghost xbl = v2(x0, x1);
    let ghost x2b = x2;
    proof {
        lemma_congr_sub(xa, x2a as int);
        // when the top limb of the reduced value is set, its low part is below 2^64 * C
        assert(x2 == 1 ==> xbl + C() < B128()) by (nonlinear_arith)
            requires xb == xbl + x2 as int * B128(), xb < B128() + x2a as int * C(), 0 <= x2a as int, (x2a as int) < B64(),
                     C() == 49478023249919, B64() == 0x1_0000_0000_0000_0000, B128() == B64() * B64();
    }
'''
GH_MUL_3 = r'''
    let ghost xc = v2(x0, x1);
    proof {
        if x2b == 1 { lemma_sub_mod_small(xbl, xc); }
        assert(xc == xb || xc == xb - P());
        lemma_congr_sub(xb, 1);
        assert(xc % P() == (a as int * bh as int) % P());
        assert(0 <= xc < B128()) by (nonlinear_arith)
            requires xc == x0 as int + x1 as int * B64(), 0 <= x0 as int <= 0xffff_ffff_ffff_ffff, 0 <= x1 as int <= 0xffff_ffff_ffff_ffff,
                     B64() == 0x1_0000_0000_0000_0000, B128() == B64() * B64();
    }
'''
GH_MUL_4 = r'''
    let ghost ya = v3(y0, y1, y2);
    let ghost yh = v2(y1, y2);
    let ghost y1o = y1;
    let ghost y2o = y2;
'''
GH_MUL_5 = r'''
    let ghost ymid = v2(y1, y2);
    let ghost y3g = y3;
    proof {
        // ymid + y3 * 2^128 == floor(a * bl / 2^64) + xc
        assert(ymid + y3 as int * B128() == yh + xc) by (nonlinear_arith)
            requires ymid == y1 as int + y2 as int * B64(), B128() == B64() * B64(),
                     yh == y1o as int + y2o as int * B64(), y1 as int + carry as int * B64() == y1o as int + x0 as int,
                     y2 as int + y3 as int * B64() == y2o as int + x1 as int + carry as int,
                     xc == x0 as int + x1 as int * B64();
        // floor(a * bl / 2^64) <= 2^128 - 2^64 - 1
        assert(yh <= B128() - B64() - 1) by (nonlinear_arith)
            requires ya == y0 as int + yh * B64(), 0 <= y0 as int, ya == a as int * bl as int,
                     0 <= a as int, (a as int) < B128(), 0 <= bl as int, (bl as int) < B64(),
                     B64() == 0x1_0000_0000_0000_0000, B128() == B64() * B64();
    }
'''
GH_MUL_6 = r'''
    let ghost yd = v3(y0, y1, y2);
    let ghost y2d = y2;
    proof {
        if y3g == 1 { lemma_sub_mod_small(ymid, v2(y1, y2)); }
        assert(v3(y0, y1, y2) == y0 as int + v2(y1, y2) * B64()) by (nonlinear_arith)
            requires v3(y0, y1, y2) == y0 as int + y1 as int * B64() + y2 as int * B128(), v2(y1, y2) == y1 as int + y2 as int * B64(), B128() == B64() * B64();
        let s = ya + xc * B64();
        assert(yd == s - (y3g as int * B64()) * P()) by (nonlinear_arith)
            requires yd == y0 as int + v2(y1, y2) * B64(), ya == y0 as int + yh * B64(), s == ya + xc * B64(),
                     y3g == 1 ==> v2(y1, y2) == yh + xc - B128() + C(),
                     y3g != 1 ==> v2(y1, y2) == yh + xc && y3g == 0,
                     P() == B128() - C();
        lemma_congr_sub(s, y3g as int * B64());
        // s == a*bl + xc*2^64 is congruent to a*b
        let abh = a as int * bh as int;
        vstd::arithmetic::div_mod::lemma_mul_mod_noop_left(xc, B64(), P());
        vstd::arithmetic::div_mod::lemma_mul_mod_noop_left(abh, B64(), P());
        vstd::arithmetic::div_mod::lemma_add_mod_noop_right(ya, xc * B64(), P());
        vstd::arithmetic::div_mod::lemma_add_mod_noop_right(ya, abh * B64(), P());
        assert(ya + abh * B64() == a as int * b as int) by (nonlinear_arith)
            requires ya == a as int * bl as int, abh == a as int * bh as int, b as int == bh as int * B64() + bl as int;
        assert(yd % P() == (a as int * b as int) % P());
    }
'''
GH_MUL_7 = r'''
    let ghost zv = v3(z0, z1, z2);
    let ghost zl = v2(z0, z1);
    proof {
        lemma_congr_sub(yd, y2d as int);
        assert(zv % P() == (a as int * b as int) % P());
        assert(zv == zl + z2 as int * B128());
        assert(zv < B128() + B64() * C()) by (nonlinear_arith)
            requires zv == y0 as int + y1 as int * B64() + y2d as int * C(), (y0 as int) < B64(), (y1 as int) <= B64() - 1, (y2d as int) < B64(), 0 <= y2d as int,
                     B128() == B64() * B64(), C() > 0, B64() > 0;
        assert((M >> 64) as u64 == 0xffff_ffff_ffff_ffffu64 && (M as u64) == 18446694595686301697u64) by (bit_vector)
            requires M == 340282366920938463463374557953744961537u128;
        assert((z1 == 0xffff_ffff_ffff_ffffu64 && z0 >= 18446694595686301697u64) <==> zl >= P());
    }
'''
GH_MUL_8 = r'''
    proof {
        let fv = v2(z0, z1);
        if z2 == 1 {
            lemma_sub_mod_small(zl, fv);
            assert(fv == zv - P());
        } else if zl >= P() {
            lemma_sub_mod_wrap(zl, fv);
            assert(fv == zv - P());
        } else {
            assert(fv == zv);
        }
        assert(0 <= fv < P());
        lemma_congr_sub(zv, 1);
        vstd::arithmetic::div_mod::lemma_small_mod(fv as nat, P() as nat);
        assert(((z1 as u128) << 64) == (z1 as u128) * 0x1_0000_0000_0000_0000u128) by (bit_vector);
    }
'''

EXT2_EXTRA = r"""
    open spec fn wf_x(a: [BaseElement; 2]) -> bool { wf(a[0]) && wf(a[1]) }
    open spec fn wf_b(b: BaseElement) -> bool { wf(b) }
"""
EXT2_MUL_PROOF = r"""
        proof {
            let (a0, a1, b0, b1) = (val(a[0]), val(a[1]), val(b[0]), val(b[1]));
            vstd::arithmetic::div_mod::lemma_add_mod_noop(a0 * b0, a1 * b1, P());
            vstd::arithmetic::div_mod::lemma_mul_mod_noop(a0 + a1, b0 + b1, P());
            vstd::arithmetic::div_mod::lemma_sub_mod_noop((a0 + a1) * (b0 + b1), a0 * b0, P());
            assert((a0 + a1) * (b0 + b1) - a0 * b0 == a0 * b1 + a1 * b0 + a1 * b1) by (nonlinear_arith);
        }"""

EPILOGUE = r'''
proof fn thm_constants()
    ensures M as int == P(), P() == B128() - 45 * 0x100_0000_0000 + 1, C() == B128() - P(),
{
}
'''

UNIT = {
    "name": "f128_core",
    "props": ["C10"],
    "prelude": PRELUDE,
    "rlimit": 60,
    "items": [
        {"kind": "const", "file": F, "name": "M", "pub": True},
        {"kind": "struct", "file": F, "name": "BaseElement", "pubfields": True, "after": OPS_SPECS},
        {"kind": "fn", "file": F, "name": "add64_with_carry", "ret": "r", "fnlabel": "f128 add64_with_carry",
         "ob": "C10.f128.add64_with_carry.contract",
         "spec": "ensures r.0 as int + r.1 as int * B64() == a as int + b as int + carry as int,",
         "ghost": [{"at": "after", "anchor": "let ret =", "text": GH_CARRY}]},
        {"kind": "fn", "file": F, "name": "mul_128x64", "ret": "r", "fnlabel": "f128 mul_128x64",
         "ob": "C10.f128.mul_128x64.contract",
         "spec": "ensures v3(r.0, r.1, r.2) == a as int * b as int,",
         "ghost": [{"at": "start", "text": GH_M64_START},
                   {"at": "after", "anchor": "let z_hi = z_hi +", "text": GH_M64_END}]},
        {"kind": "fn", "file": F, "name": "mul_by_modulus", "ret": "r", "fnlabel": "f128 mul_by_modulus",
         "ob": "C10.f128.mul_by_modulus.contract",
         "spec": "ensures v3(r.0, r.1, r.2) == a as int * P(),",
         "ghost": [{"at": "after", "anchor": "let a_hi =", "text": GH_MBM}]},
        {"kind": "fn", "file": F, "name": "sub_modulus", "ret": "r", "fnlabel": "f128 sub_modulus",
         "ob": "C10.f128.sub_modulus.contract",
         "spec": "ensures r.0 as int + r.1 as int * B64() == (a_lo as int + a_hi as int * B64() + C()) % B128(),",
         "ghost": [{"at": "after", "anchor": "z = z.wrapping_add((a_hi", "text": GH_SUBMOD}]},
        {"kind": "fn", "file": F, "name": "sub_192x192", "ret": "r", "fnlabel": "f128 sub_192x192",
         "ob": "C10.f128.sub_192x192.contract",
         "spec": "requires v3(a0, a1, a2) >= v3(b0, b1, b2),\nensures v3(r.0, r.1, r.2) == v3(a0, a1, a2) - v3(b0, b1, b2),",
         "ghost": [{"at": "start", "text": "proof { assert forall|x: u128| (#[trigger] (x >> 127)) <= 1u128 by { assert((x >> 127) <= 1u128) by (bit_vector); } }"},
                   {"at": "after", "anchor": "let z2 =", "text": GH_SUB192}]},
        {"kind": "fn", "file": F, "name": "mul_reduce", "ret": "r", "fnlabel": "f128 mul_reduce",
         "ob": "C10.f128.mul_reduce.contract",
         "spec": "ensures v3(r.0, r.1, r.2) == v3(z0, z1, z2) - z2 as int * P(),\n"
                 "    v3(r.0, r.1, r.2) == z0 as int + z1 as int * B64() + z2 as int * C(),\n    r.2 <= 1,",
         "ghost": [{"at": "after", "anchor": "let (q0, q1, q2) =", "text": GH_REDUCE}]},
        {"kind": "fn", "file": F, "name": "mul", "ret": "r", "fnlabel": "f128 mul", "ob": "C10.f128.mul.contract",
         "attrs": "#[verifier::rlimit(200)]\n",
         "spec": "requires (a as int) < P(), (b as int) < P(),\nensures (r as int) < P(), r as int == (a as int * b as int) % P(),",
         "ghost": [{"at": "start", "text": GH_MUL_0},
                   {"at": "after", "anchor": "let (x0, x1, x2) = mul_128x64(", "text": GH_MUL_1},
                   {"at": "after", "anchor": "let (mut x0, mut x1, x2) = mul_reduce(", "text": GH_MUL_2},
                   {"at": "before", "anchor": "let (y0, y1, y2) = mul_128x64(", "text": GH_MUL_3},
                   {"at": "after", "anchor": "let (y0, y1, y2) = mul_128x64(", "text": GH_MUL_4},
                   {"at": "after", "anchor": "let (mut y2, y3) = add64_with_carry(", "text": GH_MUL_5},
                   {"at": "before", "anchor": "let (mut z0, mut z1, z2) = mul_reduce(", "text": GH_MUL_6},
                   {"at": "after", "anchor": "let (mut z0, mut z1, z2) = mul_reduce(", "text": GH_MUL_7},
                   {"at": "before", "anchor": "((z1 as u128) << 64) + (z0 as u128)", "text": GH_MUL_8}]},
        {"kind": "fn", "file": F, "name": "add", "ret": "r", "fnlabel": "f128 add", "ob": "C10.f128.add.contract",
         "spec": "requires (a as int) < P(), (b as int) < P(),\nensures (r as int) < P(), r as int == (a as int + b as int) % P(),",
         "ghost": [{"at": "start", "text": r'''
    proof {
        let s = a as int + b as int;
        if s >= P() {
            vstd::arithmetic::div_mod::lemma_mod_multiples_vanish(-1, s, P());
            vstd::arithmetic::div_mod::lemma_small_mod((s - P()) as nat, P() as nat);
        } else {
            vstd::arithmetic::div_mod::lemma_small_mod(s as nat, P() as nat);
        }
    }'''}]},
        {"kind": "fn", "file": F, "name": "sub", "ret": "r", "fnlabel": "f128 sub", "ob": "C10.f128.sub.contract",
         "spec": "requires (a as int) < P(), (b as int) < P(),\nensures (r as int) < P(), r as int == (a as int - b as int) % P(),",
         "ghost": [{"at": "start", "text": r'''
    proof {
        let s = a as int - b as int;
        if s < 0 {
            vstd::arithmetic::div_mod::lemma_mod_multiples_vanish(1, s, P());
            vstd::arithmetic::div_mod::lemma_small_mod((s + P()) as nat, P() as nat);
        } else {
            vstd::arithmetic::div_mod::lemma_small_mod(s as nat, P() as nat);
        }
    }'''}]},
        {"kind": "impl", "file": F, "header": "impl BaseElement", "methods": [
            {"name": "new", "ret": "r", "pub": True, "fnlabel": "f128 BaseElement::new", "ob": "C10.f128.new.contract",
             "spec": "ensures wf(r), r.0 as int == (value as int) % P(),",
             "ghost": [{"at": "start", "text": r'''
        proof {
            if value >= M {
                vstd::arithmetic::div_mod::lemma_mod_multiples_vanish(-1, value as int, P());
                vstd::arithmetic::div_mod::lemma_small_mod((value as int - P()) as nat, P() as nat);
            } else {
                vstd::arithmetic::div_mod::lemma_small_mod(value as nat, P() as nat);
            }
        }'''}]}]},
        {"kind": "impl", "file": F, "header": "impl FieldElement for BaseElement",
         "consts": [{"name": "ZERO", "attrs": "#[verifier::external_body]\n",
                     "note": "value assumed by axiom_zero (Verus does not evaluate trait consts); checked on the real code by Kani "
                             "obligation C10.f128.constants.zero_one"}], "methods": []},
        {"kind": "impl", "file": F, "header": "impl Add for BaseElement", "out_header": "impl core::ops::Add for BaseElement",
         "extra": "type Output = Self;\n", "methods": [
            {"name": "add", "ret": "r", "fnlabel": "f128 <BaseElement as Add>::add", "ob": "C10.f128.op_add.contract",
             "spec": "ensures wf(r), val(r) == (val(self) + val(rhs)) % P(),"}]},
        {"kind": "impl", "file": F, "header": "impl Sub for BaseElement", "out_header": "impl core::ops::Sub for BaseElement",
         "extra": "type Output = Self;\n", "methods": [
            {"name": "sub", "ret": "r", "fnlabel": "f128 <BaseElement as Sub>::sub", "ob": "C10.f128.op_sub.contract",
             "spec": "ensures wf(r), val(r) == (val(self) - val(rhs)) % P(),"}]},
        {"kind": "impl", "file": F, "header": "impl Mul for BaseElement", "out_header": "impl core::ops::Mul for BaseElement",
         "extra": "type Output = Self;\n", "methods": [
            {"name": "mul", "ret": "r", "fnlabel": "f128 <BaseElement as Mul>::mul", "ob": "C10.f128.op_mul.contract",
             "spec": "ensures wf(r), val(r) == (val(self) * val(rhs)) % P(),"}]},
        {"kind": "impl", "file": F, "header": "impl Neg for BaseElement", "out_header": "impl core::ops::Neg for BaseElement",
         "extra": "type Output = Self;\n", "methods": [
            {"name": "neg", "ret": "r", "fnlabel": "f128 <BaseElement as Neg>::neg", "ob": "C10.f128.op_neg.contract",
             "spec": "ensures wf(r), val(r) == (0 - val(self)) % P(),"}]},
        {"kind": "impl", "file": F, "header": "impl ExtensibleField<2> for BaseElement", "extra": EXT2_EXTRA, "methods": [
            {"name": "mul", "ret": "r", "fnlabel": "f128 <BaseElement as ExtensibleField<2>>::mul", "ob": "C10.f128.ext2.mul.contract",
             "spec": "ensures wf(r[0]), wf(r[1]),\n"
                     "    // (a0 + a1 phi)(b0 + b1 phi) with phi^2 = phi + 1\n"
                     "    val(r[0]) == (val(a[0]) * val(b[0]) + val(a[1]) * val(b[1])) % P(),\n"
                     "    val(r[1]) == (val(a[0]) * val(b[1]) + val(a[1]) * val(b[0]) + val(a[1]) * val(b[1])) % P(),",
             "ghost": [{"at": "start", "text": EXT2_MUL_PROOF}]},
            {"name": "mul_base", "ret": "r", "fnlabel": "f128 <BaseElement as ExtensibleField<2>>::mul_base", "ob": "C10.f128.ext2.mul_base.contract",
             "spec": "ensures wf(r[0]), wf(r[1]), val(r[0]) == (val(a[0]) * val(b)) % P(), val(r[1]) == (val(a[1]) * val(b)) % P(),"},
            {"name": "frobenius", "ret": "r", "fnlabel": "f128 <BaseElement as ExtensibleField<2>>::frobenius", "ob": "C10.f128.ext2.frobenius.contract",
             "spec": "ensures wf(r[0]), wf(r[1]),\n"
                     "    // conjugation phi -> 1 - phi of x^2 - x - 1\n"
                     "    val(r[0]) == (val(x[0]) + val(x[1])) % P(), val(r[1]) == (0 - val(x[1])) % P(),",
             "ghost": [{"at": "start", "text": "proof { axiom_zero(); }"}]},
        ]},
    ],
    "epilogue": EPILOGUE,
    "theorems": {"thm_constants": "C10.f128.constants.M"},
    "assumptions": [
        "Verus: `as u64` truncation, shifts and u128::wrapping_{add,sub,mul} as specified by vstd; "
        "u64::overflowing_add/sub specified by assume_specification (cross-checked by Kani harness k_std_overflowing_specs)",
        "axiom_zero: FieldElement::ZERO (an external_body trait const for Verus) has inner value 0; checked on the real "
        "code by Kani obligation C10.f128.constants.zero_one",
    ],
}
