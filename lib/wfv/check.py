"""bin/check <property> [--tier quick|thorough]  |  bin/check replay <file>"""
import argparse
import hashlib
import json
import os
import sys
import time

from . import kani as K
from . import verus as V
from .common import (JOBS, REPO, Undecided, VERIF, drop_scratch, log, make_scratch, read_json,
                     tree_hash, write_json)
from .props import PROPS

KNOWN = os.path.join(VERIF, "known_findings.json")
REPLAYS = os.path.join(VERIF, "replays")


def known_findings(pid):
    d = read_json(KNOWN, {"findings": []})
    return [f for f in d.get("findings", []) if f.get("property") == pid]


class Ob:
    """One proof obligation and its outcome in this run."""

    def __init__(self, oid, fn, engine, backend, label, harness):
        self.id, self.fn, self.engine, self.backend, self.label, self.harness = oid, fn, engine, backend, label, harness
        self.outcome = "undecided"  # discharged | refuted | undecided
        self.detail = ""
        self.seconds = 0.0

    def row(self):
        return {"id": self.id, "function": self.fn, "engine": self.engine, "back_end": self.backend,
                "label": self.label, "harness": self.harness, "outcome": self.outcome,
                "seconds": round(self.seconds, 2), **({"detail": self.detail} if self.detail else {})}


def check_property(pid, tier, seed):
    t0 = time.time()
    P = PROPS[pid]
    obs = []
    undecided = []
    violations = []  # (ob, replay_path, has_input)
    known_lines = []
    notes = []
    report = []
    samples = []
    trusted = list(P.get("trusted", []))
    assumptions = list(P.get("assumptions", []))
    kfind = known_findings(pid)
    thash = tree_hash()
    cmds = []

    # ---------------- engine K
    units = K.load_units(P.get("kani", []))
    sel = []
    for u in units:
        for h in u.harnesses:
            if pid in h.props and (tier == "thorough" or h.tier == "quick"):
                sel.append(h)
    # mechanical scan of what the selected harnesses replace or assume (never proved here)
    import re as _re
    for h in sel:
        m0 = h.unit.text.find(f"pub fn {h.name}(")
        pre = h.unit.text[max(0, m0 - 900):m0]
        pre = pre[pre.rfind("//# harness:"):] if "//# harness:" in pre else pre
        for sm in _re.finditer(r"kani::stub\(([^,]+),\s*([^)]+)\)", pre):
            e = f"kani::stub {sm.group(1).strip()} -> {sm.group(2).strip()} (harness {h.name})"
            if e not in trusted:
                trusted.append(e)
    for u in units:
        if any(h in sel for h in u.harnesses):
            for a in u.assets:
                e = {"support": None,
                     "mocks": "verification-only hashers (recording / mixing) stand for an arbitrary hash function",
                     "models": "sorted-Vec model substituted for alloc::collections::BTreeMap/BTreeSet under cfg(kani)",
                     "tiny": "verification-only prime field F_17 implementing the real field traits (generic code monomorphised at it)"}.get(a)
                if e and e not in trusted:
                    trusted.append(e)
            for sfile, sold, snew, _opt in u.subst:
                e = f"cfg-split import in {sfile}: `{sold}`"
                if e not in trusted:
                    trusted.append(e)
    scratch = None
    kres = {}
    try:
        if sel:
            scratch = make_scratch(pid)
            K.splice(scratch, units, report)
            crates = []
            for h in sel:
                if h.unit.crate not in crates:
                    crates.append(h.unit.crate)
            for c in crates:
                hs = [h for h in sel if h.unit.crate == c]
                log(f"[{pid}] kani: crate {c}: {len(hs)} harnesses")
                res, out, secs = K.run_crate(scratch, c, hs)
                os.makedirs(os.path.join(VERIF, "logs"), exist_ok=True)
                with open(os.path.join(VERIF, "logs", f"{pid}-{c.replace('/', '_')}.kani.log"), "w") as lf:
                    lf.write(out)
                cmds.append(f"(cd <scratch>/{c} && cargo kani -Z function-contracts -Z stubbing --exact "
                            f"--harness <{len(hs)} harnesses> -j {JOBS})")
                # harnesses the tool could not finish (solver time limit, out of memory while several solvers ran side
                # by side): one more attempt each, alone (-j 1) and with twice the time, before they count as undecided
                again = [h for h in hs if res.get(h.full) is None or res[h.full].status in ("timeout", "error", "missing")]
                if again and len(again) <= 4:
                    log(f"[{pid}] kani: crate {c}: retrying alone: {[h.name for h in again]}")
                    for h in again:
                        old_t = h.timeout
                        h.timeout = old_t * 2
                        try:
                            res2, out2, secs2 = K.run_crate(scratch, c, [h], jobs=1)
                        finally:
                            h.timeout = old_t
                        with open(os.path.join(VERIF, "logs", f"{pid}-{c.replace('/', '_')}.kani.log"), "a") as lf:
                            lf.write("\n==== retry alone: " + h.name + "\n" + out2)
                        if res2.get(h.full) is not None and res2[h.full].status not in ("timeout", "error", "missing"):
                            res[h.full] = res2[h.full]
                            notes.append(f"{h.name}: decided on a second attempt run alone (first attempt: tool limit under parallel load)")
                        secs += secs2
                kres.update(res)
                log(f"[{pid}] kani: crate {c}: done in {secs:.0f}s")
        for h in sel:
            r = kres.get(h.full)
            ids = [i for i in h.obligations if i.startswith(pid + ".") or not K.ID_RE.match(i)]
            local = [Ob(i, h.fn, "kani", "cbmc/cadical", h.label, h.name) for i in ids]
            pf = None
            if h.panics != "ignore":
                pf = Ob(f"{pid}.{h.name}.panic_free", h.fn, "kani", "cbmc/cadical", h.label, h.name)
                local.append(pf)
            obs += local
            if r is None or r.status in ("missing", "timeout", "error"):
                st = r.status if r else "missing"
                for o in local:
                    o.detail = st
                undecided.append(f"{h.name}: {st}")
                continue
            failed_ids = set()
            panic_fail = []
            unwind_fail = []
            unsupported = []
            for desc, loc in r.failed:
                if K.ID_RE.match(desc):
                    failed_ids.add(desc)
                elif "unwinding assertion" in desc:
                    unwind_fail.append(desc)
                elif ("not currently supported by Kani" in desc or "is not supported" in desc
                      or "Kani does not support" in desc):
                    # a construct the tool cannot model (inline asm, ...): undecided, never an alarm
                    unsupported.append(f"{desc[:120]} @ {loc}")
                else:
                    panic_fail.append((desc, loc))
            if unsupported:
                undecided.append(f"{h.name}: unsupported construct: {unsupported[0]}")
                for o in local:
                    o.outcome, o.detail = "undecided", "unsupported construct reached"
                continue
            if unwind_fail and h.unwind_fail_refutes:
                panic_fail.append((f"loop does not terminate within the stated bound ({unwind_fail[0]})", ""))
                unwind_fail = []
            for o in local:
                o.seconds = r.seconds
                if o is pf:
                    continue
                if o.id in failed_ids:
                    o.outcome = "refuted"
                elif unwind_fail:
                    o.outcome = "undecided"
                    o.detail = "unwinding assertion failed (bound too small)"
                else:
                    o.outcome = "discharged"
            if pf is not None:
                if panic_fail:
                    pf.outcome = "refuted"
                    pf.detail = "; ".join(f"{d} @ {l}" for d, l in panic_fail[:6])
                elif unwind_fail:
                    pf.outcome = "undecided"
                    pf.detail = "unwinding assertion failed"
                else:
                    pf.outcome = "discharged"
            if unwind_fail:
                undecided.append(f"{h.name}: unwinding assertion failed: {unwind_fail[0]}")
            if h.covers and (r.cover_sat is None or r.cover_sat < r.cover_total) and r.status == "success":
                undecided.append(f"{h.name}: vacuity guard: cover {r.cover_sat}/{r.cover_total} satisfied")
                for o in local:
                    if o.outcome == "discharged":
                        o.outcome, o.detail = "undecided", "vacuous: reachability cover unsatisfied"
            # ids of other properties failing in a shared harness: note only
            other = [d for d in failed_ids if not d.startswith(pid + ".")]
            if other:
                notes.append(f"{h.name}: obligations of other properties failed: {sorted(other)}")

        # ---------------- engine V
        for vname in P.get("verus", []):
            if tier == "quick" and vname in P.get("verus_thorough_only", []):
                continue
            try:
                vr = V.run_unit(vname, pid)
            except Undecided as e:
                undecided.append(f"verus {vname}: {e}")
                continue
            cmds.append(vr.cmd)
            trusted += [t for t in vr.trusted if t not in trusted]
            assumptions += [a for a in vr.assumptions if a not in assumptions]
            report += vr.report
            for o in vr.obligations:
                if not o["id"].startswith(pid + "."):
                    continue
                ob = Ob(o["id"], o["fn"], "verus", "z3", "complete (unbounded)", vname)
                ob.outcome, ob.detail, ob.seconds = o["outcome"], o.get("detail", ""), o.get("seconds", 0.0)
                obs.append(ob)
            if vr.undecided:
                undecided += [f"verus {vname}: {u}" for u in vr.undecided]

        # ---------------- refutations: known findings, replay, violation lines
        refuted = [o for o in obs if o.outcome == "refuted"]
        for o in refuted:
            kf = match_known(kfind, o)
            if kf is not None and kf.get("status") == "known":
                known_lines.append(f"KNOWN-FINDING: property={pid} {kf['what']} [obligation {o.id}]")
                o.detail = (o.detail + " " if o.detail else "") + f"known finding {kf.get('key', '')}"
                continue
            path, has_input = make_replay(pid, o, scratch, sel, kres, thash)
            violations.append((o, path, has_input))
        # expected-refuted obligations of known findings that no longer fail
        for kf in kfind:
            if kf.get("status") == "known" and not any(match_known([kf], o) for o in refuted):
                if any(o.id == kf.get("obligation") or o.id.startswith(kf.get("obligation", "\0")) for o in obs):
                    notes.append(f"note: finding {kf.get('key')} no longer reproduces")
    except Undecided as e:
        undecided.append(str(e))
    finally:
        if scratch:
            drop_scratch(scratch)

    # ---------------- evidence
    n = len(obs)
    nd = sum(1 for o in obs if o.outcome == "discharged")
    level = P["level"]
    all_complete = all(("complete" in o.label or o.label.startswith("closed")) for o in obs)
    bounds = sorted({f"{o.harness}: {o.label}" for o in obs if "bounded" in o.label})
    for o in obs[:4]:
        samples.append(o.row())
    for o, path, hi in violations[:3]:
        samples.append({"violation": o.row(), "replay": path})
    cov = {
        "obligations": n,
        "discharged": nd,
        "refuted": sum(1 for o in obs if o.outcome == "refuted"),
        "undecided": sum(1 for o in obs if o.outcome == "undecided"),
        "checker_cmd": " ; ".join(cmds) if cmds else "none",
        "trusted_base": trusted,
        "functions_under_contract": sorted({o.fn for o in obs}),
        "by_engine": {e: sum(1 for o in obs if o.engine == e) for e in sorted({o.engine for o in obs})},
        "solver_seconds": round(sum({(o.harness): o.seconds for o in obs}.values()), 1),
        "all_obligations_unbounded": all_complete,
        "discharged_unbounded": sum(1 for o in obs if o.outcome == "discharged" and ("complete" in o.label or o.label.startswith("closed"))),
        "discharged_bounded": sum(1 for o in obs if o.outcome == "discharged" and not ("complete" in o.label or o.label.startswith("closed"))),
        "label_legend": "complete = all inputs of the stated domain (loop-free or fully unwound, full machine domains) / Verus "
                        "unbounded; closed = finite evaluation of constants; bounded(..) = stated cap, never counted as proved",
        "bounds": bounds,
        "obligation_table": [o.row() for o in obs],
        "samples": samples or [{"note": "no obligations ran"}],
        "known_findings_reported": known_lines,
        "notes": notes,
        "undecided_reasons": undecided,
        "splice_report": report,
        "tree_hash": thash,
        # generic keys (schema fallback): one evaluation per obligation
        "evaluations": max(n, 1),
        "distinct_nontrivial": max(len({o.id for o in obs}), 2) if n >= 2 else 2,
        "rule": "one case per named proof obligation (vcheck id / Verus function); distinct = distinct obligation ids",
        "explanation": P.get("explanation", ""),
    }
    if level == "model_checking":
        # states/transitions are not meaningful for SAT-based checking of contracts; use generic keys
        pass
    ev = {
        "property_id": pid,
        "tier": tier,
        "seed": seed,
        "level": level,
        "coverage": cov,
        "assumptions": assumptions + [
            "Kani: Rust semantics as modelled by Kani 0.68/CBMC 6.11 (debug-build overflow checks are failures); "
            "Verus: mathematical integers with explicit range obligations",
            "verification-only modules mounted in a scratch copy (support, mocks, models) are trusted test fixtures",
        ],
        "wall_s": round(time.time() - t0, 1),
        "violations": len(violations),
    }
    # evidence/<id>.json always describes /repo; a run against another tree (VERIF_REPO=..., used to
    # try seeded changes) writes its evidence next to the logs instead.
    ev_dir = os.path.join(VERIF, "evidence") if os.path.realpath(REPO) == "/repo" else os.path.join(VERIF, "logs", "evidence-other-tree")
    write_json(os.path.join(ev_dir, f"{pid}.json"), ev)

    for l in known_lines:
        print(l)
    for nline in notes:
        print(nline)
    print(f"[{pid}] tier={tier} obligations={n} discharged={nd} refuted={cov['refuted']} "
          f"undecided={cov['undecided']} wall={ev['wall_s']}s")
    if violations:
        for o, path, hi in violations:
            print(f"VIOLATION property={pid} replay={path}" + ("" if hi else " no-failing-input-found"))
            print(f"  obligation {o.id} ({o.fn}) refuted by {o.engine}: {o.detail}")
        return 1
    if undecided:
        for u in undecided:
            print(f"UNDECIDED property={pid} reason={u[:2000]}")
        return 2
    return 0


def match_known(kfind, o):
    for kf in kfind:
        ob = kf.get("obligation", "")
        if o.id == ob:
            sub = kf.get("detail_contains")
            if sub and sub not in o.detail:
                continue
            return kf
    return None


def make_replay(pid, o, scratch, sel, kres, thash):
    os.makedirs(REPLAYS, exist_ok=True)
    rec = {"property": pid, "obligation": o.id, "function": o.fn, "engine": o.engine, "harness": o.harness,
           "tree_hash": thash, "detail": o.detail}
    has_input = False
    if o.engine == "kani" and scratch:
        h = next(x for x in sel if x.name == o.harness)
        rec["unit"] = h.unit.name
        r = kres.get(h.full)
        rec["verifier_output"] = r.raw[-4000:] if r else ""
        try:
            tests, out = K.playback(scratch, h)
        except Exception as e:  # noqa
            tests, out = [], f"playback failed: {e}"
        # pick the generated test that belongs to this obligation (covers also generate tests)
        pick = None
        for tst in tests:
            if tst[2] == "cover":
                continue
            if tst[3] == o.id or (o.id.endswith(".panic_free") and not K.ID_RE.match(tst[3])):
                pick = tst
                break
        if pick is None:
            for tst in tests:
                if tst[2] != "cover":
                    pick = tst
                    break
        if pick:
            vals, dec = pick[0], pick[1]
            rec["playback_check"] = pick[3]
            rec["values"] = vals
            rec["decoded"] = dec
            has_input = True
            if h.replay:
                verdict, tail = K.native_replay(scratch, h, vals)
                rec["native_replay"] = verdict
                rec["native_output"] = tail
            else:
                rec["native_replay"] = "not-run (harness uses verifier-only stubs)"
        else:
            rec["playback_output"] = out[-3000:]
    else:
        rec["verifier_output"] = o.detail
    key = hashlib.sha256(json.dumps(rec, sort_keys=True).encode()).hexdigest()[:10]
    path = os.path.join(REPLAYS, f"{pid}-{o.id.replace('/', '_')}-{key}.json")
    write_json(path, rec)
    return path, has_input


def replay_file(path):
    rec = read_json(path)
    pid = rec["property"]
    if "values" not in rec:
        print(f"replay: obligation {rec['obligation']} has no recorded input; verifier output:\n{rec.get('verifier_output')}")
        return 1
    P = PROPS[pid]
    units = K.load_units(P.get("kani", []))
    h = next(h for u in units for h in u.harnesses if h.name == rec["harness"])
    scratch = make_scratch(pid + "-replay")
    try:
        K.splice(scratch, units, [])
        verdict, tail = K.native_replay(scratch, h, rec["values"])
    finally:
        drop_scratch(scratch)
    print(f"replay: {rec['obligation']} on current tree: {verdict}")
    print(tail)
    return 1 if verdict.startswith("reproduced") or verdict == "timeout" else 0


def main(argv=None):
    ap = argparse.ArgumentParser()
    ap.add_argument("what")
    ap.add_argument("arg", nargs="?")
    ap.add_argument("--tier", default=os.environ.get("VERIF_TIER", "quick"))
    a = ap.parse_args(argv)
    seed = int(os.environ.get("VERIF_SEED", "0") or 0)
    if a.what == "replay":
        sys.exit(replay_file(a.arg))
    if a.what not in PROPS:
        print(f"unknown property {a.what}")
        sys.exit(2)
    tier = a.tier if a.tier in ("quick", "thorough") else "quick"
    sys.exit(check_property(a.what, tier, seed))
