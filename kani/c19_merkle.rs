//# unit: c19_merkle
//# crate: crypto
//# mount: crypto/src/merkle/mod.rs
//# modpath: merkle
//# assets: mocks models
//# props: C19
//# subst: crypto/src/merkle/mod.rs | collections::{BTreeMap, BTreeSet}, | <empty>
//# attach: crypto/src/merkle/mod.rs | ^mod proofs; | #[cfg(kani)] use utils::verif_models::{BTreeMap, BTreeSet}; #[cfg(not(kani))] use alloc::collections::{BTreeMap, BTreeSet};
//# subst: crypto/src/merkle/proofs.rs | use alloc::{collections::BTreeMap, vec::Vec}; | use alloc::vec::Vec; #[cfg(kani)] use utils::verif_models::BTreeMap; #[cfg(not(kani))] use alloc::collections::BTreeMap;
//! C19 / C18 / C05 — Merkle trees, openings and batch proofs.
//!
//! * path recomputation of `MerkleTree::verify` is exact (stated over the recorded `merge` calls of
//!   an arbitrary hash function);
//! * malformed batch proofs / index lists / leaf lists never panic (`get_root`, `verify_batch`,
//!   `into_openings`), including wire-controlled depths >= 64;
//! * trees, single openings, batch openings, `from_single_proofs` and `into_openings` are mutually
//!   consistent (bounded tree sizes, concrete index sequences, symbolic digests).
#![allow(unused_imports, dead_code)]
use alloc::vec::Vec;

use math::fields::f64::BaseElement as F64;
use utils::{vcheck, vreach, verif_support as vs, Deserializable, SliceReader};

use super::*;
use crate::{
    hash::ByteDigest,
    verif_mocks::{self as mk, MixHasher, RecHasher, D, DN},
    Digest,
};

type HR = RecHasher<F64>;
type HM = MixHasher<F64>;

fn any_digest() -> D {
    ByteDigest::new(vs::any_bytes::<DN>())
}
fn d8(d: &D) -> [u8; DN] {
    let b = d.as_bytes();
    let mut r = [0u8; DN];
    r.copy_from_slice(&b[..DN]);
    r
}

// ------------------------------------------------------------------------------------------------
// C19: single-opening verification recomputes exactly the path selected by the index bits

fn verify_path_contract<const L: usize>() {
    mk::reset();
    let root = any_digest();
    let leaf = any_digest();
    let mut proof: Vec<D> = Vec::new();
    let mut i = 0;
    while i < L {
        proof.push(any_digest());
        i += 1;
    }
    let index = vs::any_usize();
    vs::assume(index < (1usize << L));
    let r = MerkleTree::<HR>::verify(root, index, leaf, &proof);
    vcheck!("C19.verify.one_merge_per_level", mk::calls() == L);
    let mut v = d8(&leaf);
    let mut k = 0;
    while k < L {
        let c = mk::call(k);
        let p = d8(&proof[k]);
        let bit = (index >> k) & 1;
        vcheck!("C19.verify.path_order", c.kind == mk::K_MERGE
            && (if bit == 0 { c.a == v && c.b == p } else { c.a == p && c.b == v }));
        v = c.out;
        k += 1;
    }
    vcheck!("C19.verify.ok_iff_recomputed_root_matches", r.is_ok() == (v == d8(&root)));
}

//# harness: fn=MerkleTree::verify; label=bounded(proof lengths 1, 2, 3; every in-range index, every digest, any hash function); tier=quick; uses=verify_path_contract
#[cfg_attr(kani, kani::proof)]
#[cfg_attr(kani, kani::unwind(12))]
#[cfg_attr(kani, kani::stub(alloc::fmt::format, vs::fake_format))]
pub fn k_c19_verify_path_exact() {
    verify_path_contract::<1>();
    verify_path_contract::<2>();
    verify_path_contract::<3>();
    vreach!("C19.verify.reach");
}

// ------------------------------------------------------------------------------------------------
// C19 / C05: wire-controlled depth where it is consumed

//# harness: fn=map_indexes, MerkleTree::get_multiproof_domain_len, get_proof_domain_len; label=complete in depth (every usize / u8) with one symbolic index; tier=quick; props=C19,C05; timeout=400
#[cfg_attr(kani, kani::proof)]
#[cfg_attr(kani, kani::unwind(12))]
#[cfg_attr(kani, kani::stub(alloc::fmt::format, vs::fake_format))]
pub fn k_c19_depth_consumers() {
    let depth = vs::any_usize();
    let i0 = vs::any_usize();
    let r = map_indexes(&[i0], depth);
    let in_range = depth < usize::BITS as usize && i0 < (1usize << depth);
    vcheck!("C19.map_indexes.ok_iff_in_range", r.is_ok() == in_range);
    let d = vs::any_u8();
    let p: BatchMerkleProof<HM> = BatchMerkleProof { nodes: Vec::new(), depth: d };
    let _ = <MerkleTree<HM> as VectorCommitment<HM>>::get_multiproof_domain_len(&p);
    vreach!("C19.depth.reach");
}

//# harness: fn=map_indexes (two indexes); label=bounded(depths 0, 1, 3; every pair of index values); tier=quick; props=C19; timeout=400
#[cfg_attr(kani, kani::proof)]
#[cfg_attr(kani, kani::unwind(12))]
#[cfg_attr(kani, kani::stub(alloc::fmt::format, vs::fake_format))]
pub fn k_c19_map_indexes_pairs() {
    let (i0, i1) = (vs::any_usize(), vs::any_usize());
    let r0 = map_indexes(&[i0, i1], 0);
    vcheck!("C19.map_indexes.depth0", r0.is_err());
    let r1 = map_indexes(&[i0, i1], 1);
    vcheck!("C19.map_indexes.depth1.ok_iff_distinct_and_in_range", r1.is_ok() == (i0 < 2 && i1 < 2 && i0 != i1));
    let r3 = map_indexes(&[i0, i1], 3);
    vcheck!("C19.map_indexes.depth3.ok_iff_distinct_and_in_range", r3.is_ok() == (i0 < 8 && i1 < 8 && i0 != i1));
    vreach!("C19.map_indexes.reach");
}

// (BatchMerkleProof::read_from is NOT under a direct contract: a harness over all byte strings of length <= 3
// needed 20-65 GB of solver memory because of the nested symbolic-capacity Vec<Vec<Digest>> allocation, at
// every input length tried. It is the composition read_u8 ; read_usize ; n x Vec::<Digest>::read_from, whose
// decoders are under contract in the c26_serde unit - a composition argument, not a checked obligation.)

// ------------------------------------------------------------------------------------------------
// C19: malformed batch inputs never panic (concrete shapes, symbolic contents)

fn nodes_of(shape: &[usize]) -> Vec<Vec<D>> {
    let mut nodes = Vec::new();
    let mut i = 0;
    while i < shape.len() {
        let mut v = Vec::new();
        let mut j = 0;
        while j < shape[i] {
            v.push(any_digest());
            j += 1;
        }
        nodes.push(v);
        i += 1;
    }
    nodes
}
fn digests(n: usize) -> Vec<D> {
    let mut v = Vec::new();
    let mut i = 0;
    while i < n {
        v.push(any_digest());
        i += 1;
    }
    v
}
fn indexes_of(n: usize) -> Vec<usize> {
    let mut v = Vec::new();
    let mut i = 0;
    while i < n {
        v.push(vs::any_usize());
        i += 1;
    }
    v
}

/// one shape: node-vector lengths, number of indexes, number of leaves, depth (all concrete); index
/// values (full usize: duplicates and out-of-range included) and every digest symbolic
fn malformed_batch(shape: &[usize], n_idx: usize, n_leaves: usize, depth: u8, openings: bool) {
    let proof: BatchMerkleProof<HM> = BatchMerkleProof { nodes: nodes_of(shape), depth };
    let idx = indexes_of(n_idx);
    let leaves = digests(n_leaves);
    let root = any_digest();
    let r = MerkleTree::<HM>::verify_batch(&root, &idx, &leaves, &proof);
    if r.is_ok() {
        let mut ok = true;
        let mut i = 0;
        while i < n_idx {
            ok = ok && idx[i] < (1usize << depth);
            let mut j = i + 1;
            while j < n_idx {
                ok = ok && idx[i] != idx[j];
                j += 1;
            }
            i += 1;
        }
        vcheck!("C19.verify_batch.ok_implies_distinct_in_range", ok);
        vcheck!("C19.verify_batch.ok_implies_leaf_per_index", n_leaves >= n_idx);
    }
    if openings {
        let _ = proof.into_openings(&leaves, &idx);
    }
}

//# harness: fn=BatchMerkleProof::get_root, MerkleTree::verify_batch; label=bounded(depth 2; shapes (nodes [1], 1 index, 0 leaves), (nodes [1], 1 index, 1 leaf), (nodes [0], 1 index, 1 leaf); index value and digests symbolic); tier=quick; uses=malformed_batch,nodes_of,digests,indexes_of; timeout=900
#[cfg_attr(kani, kani::proof)]
#[cfg_attr(kani, kani::unwind(12))]
#[cfg_attr(kani, kani::stub(alloc::fmt::format, vs::fake_format))]
pub fn k_c19_batch_malformed_a() {
    malformed_batch(&[1], 1, 0, 2, false);
    malformed_batch(&[1], 1, 1, 2, false);
    malformed_batch(&[0], 1, 1, 2, false);
    vreach!("C19.malformed_a.reach");
}

//# harness: fn=BatchMerkleProof::get_root, MerkleTree::verify_batch; label=bounded(depth 1 and 3; shapes (nodes [], 1 index, 1 leaf), (nodes [2], 1 index, 1 leaf); index value and digests symbolic); tier=quick; uses=malformed_batch,nodes_of,digests,indexes_of; timeout=900
#[cfg_attr(kani, kani::proof)]
#[cfg_attr(kani, kani::unwind(12))]
#[cfg_attr(kani, kani::stub(alloc::fmt::format, vs::fake_format))]
pub fn k_c19_batch_malformed_b() {
    malformed_batch(&[], 1, 1, 1, false);
    malformed_batch(&[2], 1, 1, 3, false);
    vreach!("C19.malformed_b.reach");
}

// (the instance with `into_openings` on a malformed one-index batch did not finish in 30 minutes: not claimed)
// (the two-index shape (nodes [1, 1], 2 indexes, 2 leaves) needs about 30 GB and 30 minutes of solver time: not claimed)

// ------------------------------------------------------------------------------------------------
// C18: trees, openings and batch proofs are mutually consistent

fn tree_of(n: usize) -> (Vec<D>, MerkleTree<HM>) {
    let leaves = digests(n);
    let tree = MerkleTree::<HM>::new(leaves.clone()).unwrap();
    (leaves, tree)
}

//# harness: fn=MerkleTree::new, build_merkle_nodes, prove, verify; label=bounded(2 and 4 leaves; every index, every digest); tier=quick; props=C18; uses=tree_of,digests; timeout=600
#[cfg_attr(kani, kani::proof)]
#[cfg_attr(kani, kani::unwind(12))]
#[cfg_attr(kani, kani::stub(alloc::fmt::format, vs::fake_format))]
pub fn k_c18_tree_and_single_openings() {
    let (l2, t2) = tree_of(2);
    vcheck!("C18.root.2_leaves", *t2.root() == HM::merge(&[l2[0], l2[1]]));
    let (l4, t4) = tree_of(4);
    let expect = HM::merge(&[HM::merge(&[l4[0], l4[1]]), HM::merge(&[l4[2], l4[3]])]);
    vcheck!("C18.root.4_leaves", *t4.root() == expect);
    let i = vs::any_usize();
    vs::assume(i < 4);
    let (leaf, proof) = t4.prove(i).unwrap();
    vcheck!("C18.prove.leaf", leaf == l4[i] && proof.len() == 2);
    vcheck!("C18.prove.verifies", MerkleTree::<HM>::verify(*t4.root(), i, leaf, &proof).is_ok());
    vcheck!("C18.prove.out_of_range", t4.prove(4 + (i & 3)).is_err());
    vreach!("C18.single.reach");
}

/// batch opening on a 4-leaf tree for one concrete index sequence: leaves come back in input order,
/// the proof verifies and reconstructs the root
fn batch_verifies(idx: &[usize]) {
    let (l, t) = tree_of(4);
    let (bl, bp) = t.prove_batch(idx).unwrap();
    let mut k = 0;
    while k < idx.len() {
        vcheck!("C18.batch.leaves_in_input_order", bl[k] == l[idx[k]]);
        k += 1;
    }
    vcheck!("C18.batch.verifies", MerkleTree::<HM>::verify_batch(t.root(), idx, &bl, &bp).is_ok());
    vcheck!("C18.batch.reconstructs_root", bp.get_root(idx, &bl) == Ok(*t.root()));
}

//# harness: fn=MerkleTree::prove_batch, verify_batch, BatchMerkleProof::get_root; label=bounded(4 leaves; index sequences [1], [2,3], [3,0]; digests symbolic); tier=quick; props=C18; uses=batch_verifies,tree_of,digests; timeout=900
#[cfg_attr(kani, kani::proof)]
#[cfg_attr(kani, kani::unwind(12))]
#[cfg_attr(kani, kani::stub(alloc::fmt::format, vs::fake_format))]
pub fn k_c18_batch_openings_verify() {
    batch_verifies(&[1]);
    batch_verifies(&[2, 3]);
    batch_verifies(&[3, 0]);
    vreach!("C18.batch_verify.reach");
}

// from_single_proofs / into_openings against the single openings on a 4-leaf tree: even the one-index instance
// does not finish in 55 minutes, and a one-index instance on a 2-leaf tree not in 35 minutes (maps whose values
// hold cloned proof vectors): `from_single_proofs` and `into_openings` are NOT under contract for C18 (listed in
// the evidence); C19 covers only that `into_openings` validates its arguments first.

//# harness: fn=MerkleTree::prove_batch, verify_batch, get_root (4 leaves, all indexes); label=bounded(4 leaves; index sequence [0,1,2,3]; digests symbolic); tier=thorough; props=C18; uses=batch_verifies,tree_of,digests; timeout=1800
#[cfg_attr(kani, kani::proof)]
#[cfg_attr(kani, kani::unwind(12))]
#[cfg_attr(kani, kani::stub(alloc::fmt::format, vs::fake_format))]
pub fn k_c18_batch_openings_all4() {
    batch_verifies(&[0, 1, 2, 3]);
    vreach!("C18.batch_all4.reach");
}

//# harness: fn=MerkleTree::prove_batch, verify_batch, get_root (4 leaves, indexes [2, 0, 1]); label=bounded(4 leaves; index sequence [2,0,1]; digests symbolic); tier=thorough; props=C18; uses=batch_verifies,tree_of,digests; timeout=1800
#[cfg_attr(kani, kani::proof)]
#[cfg_attr(kani, kani::unwind(12))]
#[cfg_attr(kani, kani::stub(alloc::fmt::format, vs::fake_format))]
pub fn k_c18_batch_openings_201() {
    batch_verifies(&[2, 0, 1]);
    vreach!("C18.batch_201.reach");
}
