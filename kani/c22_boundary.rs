//# unit: c22_boundary
//# crate: air
//# mount: air/src/air/boundary/mod.rs
//# modpath: air::boundary
//# assets: tiny models
//# props: C22 C23
//# subst_opt: air/src/air/boundary/mod.rs | collections::{BTreeMap, BTreeSet}, | <empty>
//# subst_opt: air/src/air/boundary/mod.rs | collections::BTreeMap, | <empty>
//# attach: air/src/air/boundary/mod.rs | ^mod constraint; | #[cfg(kani)] #[allow(unused_imports)] use utils::verif_models::{BTreeMap, BTreeSet}; #[cfg(not(kani))] #[allow(unused_imports)] use alloc::collections::{BTreeMap, BTreeSet};
//# subst: air/src/air/boundary/constraint.rs | use alloc::{collections::BTreeMap, vec::Vec}; | use alloc::vec::Vec; #[cfg(kani)] use utils::verif_models::BTreeMap; #[cfg(not(kani))] use alloc::collections::BTreeMap;
//# subst: air/src/air/boundary/constraint_group.rs | use alloc::{collections::BTreeMap, vec::Vec}; | use alloc::vec::Vec; #[cfg(kani)] use utils::verif_models::BTreeMap; #[cfg(not(kani))] use alloc::collections::BTreeMap;
//! C22 / C23 (field clauses) — over the verification-only field F_17 (trace length 8):
//! * each constraint divisor built from an assertion vanishes exactly on the asserted steps and its
//!   degree equals their number; the transition divisor's numerator vanishes on the whole trace
//!   domain, its exemptions exactly on the last k steps, degree n - k;
//! * each boundary constraint evaluates to zero at the domain point of an asserted step exactly when
//!   the trace holds the asserted value.
#![allow(unused_imports, dead_code)]
use alloc::vec::Vec;

use math::{
    verif_tinyfield::{Tiny, P},
    FieldElement, StarkField,
};
use utils::{vcheck, vreach, verif_support as vs};

use super::*;

const N: usize = 8;

fn any_tiny() -> Tiny {
    let v = vs::any_u32();
    vs::assume(v < P);
    Tiny(v)
}
fn domain_point(s: usize) -> Tiny {
    let g = Tiny::get_root_of_unity(3);
    let mut x = Tiny::ONE;
    let mut i = 0;
    while i < s {
        x = x * g;
        i += 1;
    }
    x
}
/// documented step set of an assertion
fn covers(a: &Assertion<Tiny>, s: usize) -> bool {
    if a.stride == 0 {
        s == a.first_step
    } else {
        s < N && s >= a.first_step && (s - a.first_step) % a.stride == 0
    }
}
/// the assertion shapes fitting a trace of length 8: the shape (kind, stride, number of values) is concrete
/// in each harness, the first step and the values are symbolic (with a symbolic shape the same obligations
/// needed more than 12 GB of solver memory; per-shape harnesses take seconds)
fn shape(kind: u8, vals: [Tiny; 4]) -> Assertion<Tiny> {
    let first = vs::any_usize();
    match kind {
        0 => {
            vs::assume(first < N);
            Assertion::single(0, first, vals[0])
        },
        1 => {
            vs::assume(first < 2);
            Assertion::periodic(0, first, 2, vals[0])
        },
        2 => {
            vs::assume(first < 4);
            Assertion::periodic(0, first, 4, vals[0])
        },
        3 => {
            vs::assume(first < 8);
            Assertion::periodic(0, first, 8, vals[0])
        },
        4 => {
            vs::assume(first < 2);
            Assertion::sequence(0, first, 2, alloc::vec![vals[0], vals[1], vals[2], vals[3]])
        },
        _ => {
            vs::assume(first < 4);
            Assertion::sequence(0, first, 4, alloc::vec![vals[0], vals[1]])
        },
    }
}

fn divisor_zeros(a: Assertion<Tiny>) {
    let d = ConstraintDivisor::<Tiny>::from_assertion(&a, N);
    let mut count = 0;
    let mut exact = true;
    let mut s = 0;
    while s < N {
        let z = d.evaluate_at(domain_point(s)) == Tiny::ZERO;
        if z != covers(&a, s) {
            exact = false;
        }
        if covers(&a, s) {
            count += 1;
        }
        s += 1;
    }
    vcheck!("C22.divisor.vanishes_exactly_on_asserted_steps", exact);
    vcheck!("C22.divisor.degree_is_number_of_steps", d.degree() == count);
}

//# harness: fn=ConstraintDivisor::from_assertion, degree, evaluate_at (single assertion, every first step); label=bounded(F_17, trace length 8; single assertion, every first step, symbolic first step); tier=quick; props=C22; uses=shape,divisor_zeros,covers,domain_point; timeout=900
#[cfg_attr(kani, kani::proof)]
#[cfg_attr(kani, kani::unwind(12))]
#[cfg_attr(kani, kani::stub(alloc::fmt::format, vs::fake_format))]
pub fn k_c22_divisor_zeros_single() {
    divisor_zeros(shape(0, [Tiny::ONE; 4]));
    vreach!("C22.divisor.single.reach");
}

//# harness: fn=ConstraintDivisor::from_assertion, degree, evaluate_at (periodic assertion with stride 2); label=bounded(F_17, trace length 8; periodic assertion with stride 2, symbolic first step); tier=quick; props=C22; uses=shape,divisor_zeros,covers,domain_point; timeout=900
#[cfg_attr(kani, kani::proof)]
#[cfg_attr(kani, kani::unwind(12))]
#[cfg_attr(kani, kani::stub(alloc::fmt::format, vs::fake_format))]
pub fn k_c22_divisor_zeros_periodic2() {
    divisor_zeros(shape(1, [Tiny::ONE; 4]));
    vreach!("C22.divisor.periodic2.reach");
}

//# harness: fn=ConstraintDivisor::from_assertion, degree, evaluate_at (periodic assertion with stride 4); label=bounded(F_17, trace length 8; periodic assertion with stride 4, symbolic first step); tier=quick; props=C22; uses=shape,divisor_zeros,covers,domain_point; timeout=900
#[cfg_attr(kani, kani::proof)]
#[cfg_attr(kani, kani::unwind(12))]
#[cfg_attr(kani, kani::stub(alloc::fmt::format, vs::fake_format))]
pub fn k_c22_divisor_zeros_periodic4() {
    divisor_zeros(shape(2, [Tiny::ONE; 4]));
    vreach!("C22.divisor.periodic4.reach");
}

//# harness: fn=ConstraintDivisor::from_assertion, degree, evaluate_at (periodic assertion with stride 8); label=bounded(F_17, trace length 8; periodic assertion with stride 8, symbolic first step); tier=quick; props=C22; uses=shape,divisor_zeros,covers,domain_point; timeout=900
#[cfg_attr(kani, kani::proof)]
#[cfg_attr(kani, kani::unwind(12))]
#[cfg_attr(kani, kani::stub(alloc::fmt::format, vs::fake_format))]
pub fn k_c22_divisor_zeros_periodic8() {
    divisor_zeros(shape(3, [Tiny::ONE; 4]));
    vreach!("C22.divisor.periodic8.reach");
}

//# harness: fn=ConstraintDivisor::from_assertion, degree, evaluate_at (sequence assertion of 4 values with stride 2); label=bounded(F_17, trace length 8; sequence assertion of 4 values with stride 2, symbolic first step); tier=quick; props=C22; uses=shape,divisor_zeros,covers,domain_point; timeout=900
#[cfg_attr(kani, kani::proof)]
#[cfg_attr(kani, kani::unwind(12))]
#[cfg_attr(kani, kani::stub(alloc::fmt::format, vs::fake_format))]
pub fn k_c22_divisor_zeros_sequence4x2() {
    divisor_zeros(shape(4, [Tiny::ONE; 4]));
    vreach!("C22.divisor.sequence4x2.reach");
}

//# harness: fn=ConstraintDivisor::from_assertion, degree, evaluate_at (sequence assertion of 2 values with stride 4); label=bounded(F_17, trace length 8; sequence assertion of 2 values with stride 4, symbolic first step); tier=quick; props=C22; uses=shape,divisor_zeros,covers,domain_point; timeout=900
#[cfg_attr(kani, kani::proof)]
#[cfg_attr(kani, kani::unwind(12))]
#[cfg_attr(kani, kani::stub(alloc::fmt::format, vs::fake_format))]
pub fn k_c22_divisor_zeros_sequence2x4() {
    divisor_zeros(shape(5, [Tiny::ONE; 4]));
    vreach!("C22.divisor.sequence2x4.reach");
}

//# harness: fn=ConstraintDivisor::from_transition, degree, evaluate_exemptions_at (1 exemption(s)); label=bounded(F_17, trace length 8, 1 exemption(s)); tier=quick; props=C23; uses=transition_divisor_zeros,domain_point; timeout=900
#[cfg_attr(kani, kani::proof)]
#[cfg_attr(kani, kani::unwind(12))]
#[cfg_attr(kani, kani::stub(alloc::fmt::format, vs::fake_format))]
pub fn k_c23_transition_divisor_zeros_1() {
    transition_divisor_zeros(1);
    vreach!("C23.transition_divisor.1.reach");
}
//# harness: fn=ConstraintDivisor::from_transition, degree, evaluate_exemptions_at (2 exemption(s)); label=bounded(F_17, trace length 8, 2 exemption(s)); tier=quick; props=C23; uses=transition_divisor_zeros,domain_point; timeout=900
#[cfg_attr(kani, kani::proof)]
#[cfg_attr(kani, kani::unwind(12))]
#[cfg_attr(kani, kani::stub(alloc::fmt::format, vs::fake_format))]
pub fn k_c23_transition_divisor_zeros_2() {
    transition_divisor_zeros(2);
    vreach!("C23.transition_divisor.2.reach");
}
//# harness: fn=ConstraintDivisor::from_transition, degree, evaluate_exemptions_at (3 exemption(s)); label=bounded(F_17, trace length 8, 3 exemption(s)); tier=quick; props=C23; uses=transition_divisor_zeros,domain_point; timeout=900
#[cfg_attr(kani, kani::proof)]
#[cfg_attr(kani, kani::unwind(12))]
#[cfg_attr(kani, kani::stub(alloc::fmt::format, vs::fake_format))]
pub fn k_c23_transition_divisor_zeros_3() {
    transition_divisor_zeros(3);
    vreach!("C23.transition_divisor.3.reach");
}
fn transition_divisor_zeros(k: usize) {
    let d = ConstraintDivisor::<Tiny>::from_transition(N, k);
    vcheck!("C23.transition_divisor.degree", d.degree() == N - k);
    let mut ok = true;
    let mut s = 0;
    while s < N {
        let x = domain_point(s);
        // numerator x^n - 1 vanishes on the whole trace domain
        let (deg, c) = d.numerator()[0];
        let mut xp = Tiny::ONE;
        let mut i = 0;
        while i < deg {
            xp = xp * x;
            i += 1;
        }
        ok = ok && d.numerator().len() == 1 && xp - c == Tiny::ZERO;
        // the exemption product vanishes exactly on the last k steps
        ok = ok && ((d.evaluate_exemptions_at(x) == Tiny::ZERO) == (s >= N - k));
        s += 1;
    }
    vcheck!("C23.transition_divisor.vanishes_except_on_exempt_steps", ok);
}

/// a boundary constraint built from `a` evaluates to zero at the domain point of an asserted step exactly
/// when the trace holds the asserted value there
fn zero_iff_value(a: Assertion<Tiny>) {
    let inv_g = Tiny::get_root_of_unity(3).inv();
    let mut twiddles = BTreeMap::new();
    let c = BoundaryConstraint::<Tiny, Tiny>::new(a.clone(), inv_g, &mut twiddles, Tiny::ONE);
    let trace_value = any_tiny();
    let s = vs::any_usize();
    vs::assume(s < N && covers(&a, s));
    // the value asserted at step s
    let expected = if a.values.len() == 1 { a.values[0] } else { a.values[(s - a.first_step) / a.stride] };
    let e = c.evaluate_at(domain_point(s), trace_value);
    vcheck!("C22.boundary_constraint.zero_iff_trace_holds_asserted_value", (e == Tiny::ZERO) == (trace_value == expected));
}

//# harness: fn=BoundaryConstraint::new, evaluate_at (single assertion, every first step); label=bounded(F_17, trace length 8; single assertion, every first step, symbolic first step, asserted values and trace value); tier=quick; props=C22; uses=shape,zero_iff_value,covers,domain_point,any_tiny; timeout=900
#[cfg_attr(kani, kani::proof)]
#[cfg_attr(kani, kani::unwind(12))]
#[cfg_attr(kani, kani::stub(alloc::fmt::format, vs::fake_format))]
pub fn k_c22_zero_iff_value_single() {
    zero_iff_value(shape(0, [any_tiny(), any_tiny(), any_tiny(), any_tiny()]));
    vreach!("C22.boundary.single.reach");
}

//# harness: fn=BoundaryConstraint::new, evaluate_at (periodic assertion with stride 2); label=bounded(F_17, trace length 8; periodic assertion with stride 2, symbolic first step, asserted values and trace value); tier=quick; props=C22; uses=shape,zero_iff_value,covers,domain_point,any_tiny; timeout=900
#[cfg_attr(kani, kani::proof)]
#[cfg_attr(kani, kani::unwind(12))]
#[cfg_attr(kani, kani::stub(alloc::fmt::format, vs::fake_format))]
pub fn k_c22_zero_iff_value_periodic2() {
    zero_iff_value(shape(1, [any_tiny(), any_tiny(), any_tiny(), any_tiny()]));
    vreach!("C22.boundary.periodic2.reach");
}

//# harness: fn=BoundaryConstraint::new, evaluate_at (periodic assertion with stride 4); label=bounded(F_17, trace length 8; periodic assertion with stride 4, symbolic first step, asserted values and trace value); tier=quick; props=C22; uses=shape,zero_iff_value,covers,domain_point,any_tiny; timeout=900
#[cfg_attr(kani, kani::proof)]
#[cfg_attr(kani, kani::unwind(12))]
#[cfg_attr(kani, kani::stub(alloc::fmt::format, vs::fake_format))]
pub fn k_c22_zero_iff_value_periodic4() {
    zero_iff_value(shape(2, [any_tiny(), any_tiny(), any_tiny(), any_tiny()]));
    vreach!("C22.boundary.periodic4.reach");
}

//# harness: fn=BoundaryConstraint::new, evaluate_at (periodic assertion with stride 8); label=bounded(F_17, trace length 8; periodic assertion with stride 8, symbolic first step, asserted values and trace value); tier=quick; props=C22; uses=shape,zero_iff_value,covers,domain_point,any_tiny; timeout=900
#[cfg_attr(kani, kani::proof)]
#[cfg_attr(kani, kani::unwind(12))]
#[cfg_attr(kani, kani::stub(alloc::fmt::format, vs::fake_format))]
pub fn k_c22_zero_iff_value_periodic8() {
    zero_iff_value(shape(3, [any_tiny(), any_tiny(), any_tiny(), any_tiny()]));
    vreach!("C22.boundary.periodic8.reach");
}

//# harness: fn=BoundaryConstraint::new, evaluate_at (sequence assertion of 4 values with stride 2); label=bounded(F_17, trace length 8; sequence assertion of 4 values with stride 2, symbolic first step, asserted values and trace value); tier=quick; props=C22; uses=shape,zero_iff_value,covers,domain_point,any_tiny; timeout=900
#[cfg_attr(kani, kani::proof)]
#[cfg_attr(kani, kani::unwind(12))]
#[cfg_attr(kani, kani::stub(alloc::fmt::format, vs::fake_format))]
pub fn k_c22_zero_iff_value_sequence4x2() {
    zero_iff_value(shape(4, [any_tiny(), any_tiny(), any_tiny(), any_tiny()]));
    vreach!("C22.boundary.sequence4x2.reach");
}

//# harness: fn=BoundaryConstraint::new, evaluate_at (sequence assertion of 2 values with stride 4); label=bounded(F_17, trace length 8; sequence assertion of 2 values with stride 4, symbolic first step, asserted values and trace value); tier=quick; props=C22; uses=shape,zero_iff_value,covers,domain_point,any_tiny; timeout=900
#[cfg_attr(kani, kani::proof)]
#[cfg_attr(kani, kani::unwind(12))]
#[cfg_attr(kani, kani::stub(alloc::fmt::format, vs::fake_format))]
pub fn k_c22_zero_iff_value_sequence2x4() {
    zero_iff_value(shape(5, [any_tiny(), any_tiny(), any_tiny(), any_tiny()]));
    vreach!("C22.boundary.sequence2x4.reach");
}

// the inverse-twiddle cache passed to BoundaryConstraint::new is shared by all assertions of an AIR: two sequence
// assertions with different numbers of values prepared one after the other (in both orders) must each get
// the twiddles of their own length
//# harness: fn=BoundaryConstraint::new (shared twiddle cache, sequence assertions of 4 and 2 values), evaluate_at; label=closed(F_17, trace length 8; fixed asserted values, both preparation orders, every asserted step); tier=quick; props=C22; uses=covers,domain_point; timeout=900
#[cfg_attr(kani, kani::proof)]
#[cfg_attr(kani, kani::unwind(12))]
#[cfg_attr(kani, kani::stub(alloc::fmt::format, vs::fake_format))]
pub fn k_c22_shared_twiddle_cache() {
    let inv_g = Tiny::get_root_of_unity(3).inv();
    let a4 = Assertion::sequence(0, 1, 2, alloc::vec![Tiny(3), Tiny(9), Tiny(14), Tiny(6)]);
    let a2 = Assertion::sequence(1, 2, 4, alloc::vec![Tiny(5), Tiny(12)]);
    let mut order = 0;
    while order < 2 {
        let mut twiddles = BTreeMap::new();
        let (c4, c2) = if order == 0 {
            let c4 = BoundaryConstraint::<Tiny, Tiny>::new(a4.clone(), inv_g, &mut twiddles, Tiny::ONE);
            let c2 = BoundaryConstraint::<Tiny, Tiny>::new(a2.clone(), inv_g, &mut twiddles, Tiny::ONE);
            (c4, c2)
        } else {
            let c2 = BoundaryConstraint::<Tiny, Tiny>::new(a2.clone(), inv_g, &mut twiddles, Tiny::ONE);
            let c4 = BoundaryConstraint::<Tiny, Tiny>::new(a4.clone(), inv_g, &mut twiddles, Tiny::ONE);
            (c4, c2)
        };
        let mut ok = true;
        let mut k = 0;
        while k < 4 {
            let s = 1 + 2 * k;
            ok = ok && c4.evaluate_at(domain_point(s), a4.values[k]) == Tiny::ZERO
                && c4.evaluate_at(domain_point(s), a4.values[k] + Tiny::ONE) != Tiny::ZERO;
            k += 1;
        }
        k = 0;
        while k < 2 {
            let s = 2 + 4 * k;
            ok = ok && c2.evaluate_at(domain_point(s), a2.values[k]) == Tiny::ZERO
                && c2.evaluate_at(domain_point(s), a2.values[k] + Tiny::ONE) != Tiny::ZERO;
            k += 1;
        }
        vcheck!("C22.boundary_constraint.shared_twiddle_cache_zero_iff_value", ok);
        order += 1;
    }
    vreach!("C22.shared_cache.reach");
}

// the same on a trace of 16 rows with sequence assertions of 8 and 4 values: the smallest sizes at which a
// twiddle table of the wrong order (not just the wrong length) differs from the right one
//# harness: fn=BoundaryConstraint::new (shared twiddle cache, sequence assertions of 8 and 4 values, trace length 16), evaluate_at; label=closed(F_17, trace length 16; fixed asserted values, longer assertion prepared first, every asserted step); tier=quick; props=C22; timeout=1500
#[cfg_attr(kani, kani::proof)]
#[cfg_attr(kani, kani::unwind(20))]
#[cfg_attr(kani, kani::stub(alloc::fmt::format, vs::fake_format))]
pub fn k_c22_shared_twiddle_cache_16() {
    let g = Tiny::get_root_of_unity(4);
    let inv_g = g.inv();
    let a8 = Assertion::sequence(0, 1, 2, alloc::vec![Tiny(3), Tiny(9), Tiny(14), Tiny(6), Tiny(1), Tiny(0), Tiny(16), Tiny(8)]);
    let a4 = Assertion::sequence(1, 3, 4, alloc::vec![Tiny(5), Tiny(12), Tiny(2), Tiny(7)]);
    let mut twiddles = BTreeMap::new();
    let c8 = BoundaryConstraint::<Tiny, Tiny>::new(a8.clone(), inv_g, &mut twiddles, Tiny::ONE);
    let c4 = BoundaryConstraint::<Tiny, Tiny>::new(a4.clone(), inv_g, &mut twiddles, Tiny::ONE);
    // domain points g^s of the 16-row trace domain
    let mut pts = [Tiny::ONE; 16];
    let mut s = 1;
    while s < 16 {
        pts[s] = pts[s - 1] * g;
        s += 1;
    }
    let mut ok = true;
    let mut k = 0;
    while k < 8 {
        ok = ok && c8.evaluate_at(pts[1 + 2 * k], a8.values[k]) == Tiny::ZERO;
        k += 1;
    }
    k = 0;
    while k < 4 {
        ok = ok && c4.evaluate_at(pts[3 + 4 * k], a4.values[k]) == Tiny::ZERO
            && c4.evaluate_at(pts[3 + 4 * k], a4.values[k] + Tiny::ONE) != Tiny::ZERO;
        k += 1;
    }
    vcheck!("C22.boundary_constraint.shared_twiddle_cache_16_zero_iff_value", ok);
    vreach!("C22.shared_cache_16.reach");
}

/// two assertions that tie on (stride, first step) and differ only in their column, listed in both
/// orders: the prepared (natural) order must be the same and sorted by column
fn order_independent(a0: Assertion<Tiny>, a1: Assertion<Tiny>) {
    let x = prepare_assertions(alloc::vec![a0.clone(), a1.clone()], 2, N);
    let y = prepare_assertions(alloc::vec![a1, a0], 2, N);
    vcheck!("C22.prepare_assertions.order_independent", x == y);
    vcheck!("C22.prepare_assertions.natural_order", x.len() == 2 && x[0].column == 0 && x[1].column == 1);
}

//# harness: fn=boundary::prepare_assertions (order independence of the natural order); label=bounded(F_17, trace length 8; a pair of single assertions on the same step of two columns, both listing orders); tier=quick; props=C22; uses=order_independent; timeout=900
#[cfg_attr(kani, kani::proof)]
#[cfg_attr(kani, kani::unwind(10))]
#[cfg_attr(kani, kani::stub(alloc::fmt::format, vs::fake_format))]
pub fn k_c22_prepare_assertions_order_independent() {
    order_independent(Assertion::single(0, 3, Tiny::new(1)), Assertion::single(1, 3, Tiny::new(2)));
    vreach!("C22.prepare.reach");
}

//# harness: fn=boundary::prepare_assertions (order independence, periodic assertions); label=bounded(F_17, trace length 8; a pair of periodic assertions tying on (stride, first step), both listing orders); tier=quick; props=C22; uses=order_independent; timeout=900
#[cfg_attr(kani, kani::proof)]
#[cfg_attr(kani, kani::unwind(10))]
#[cfg_attr(kani, kani::stub(alloc::fmt::format, vs::fake_format))]
pub fn k_c22_prepare_assertions_order_independent_periodic() {
    order_independent(Assertion::periodic(0, 1, 2, Tiny::new(1)), Assertion::periodic(1, 1, 2, Tiny::new(2)));
    vreach!("C22.prepare.periodic.reach");
}
