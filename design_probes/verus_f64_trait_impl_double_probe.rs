use vstd::prelude::*;
verus! {
pub const M: u64 = 0xffffffff00000001;
pub open spec fn P() -> int { 0xffffffff00000001 }
pub open spec fn R() -> int { 0x1_0000_0000_0000_0000 }

pub assume_specification[ u64::overflowing_add ](a: u64, b: u64) -> (r: (u64, bool))
    ensures r.0 == a.wrapping_add(b), r.1 == (a as int + b as int >= 0x1_0000_0000_0000_0000);
pub assume_specification[ u64::overflowing_sub ](a: u64, b: u64) -> (r: (u64, bool))
    ensures r.0 == a.wrapping_sub(b), r.1 == ((a as int) < (b as int));


proof fn lemma_wadd(x: u64, y: u64)
    ensures x.wrapping_add(y) == add(x, y)
{
    let z: u64 = (((x as u128 + y as u128) as u128) % 0x1_0000_0000_0000_0000u128) as u64;
    assert(z == x.wrapping_add(y));
    assert(z == add(x, y)) by (bit_vector) requires z == (((x as u128 + y as u128) as u128) % 0x1_0000_0000_0000_0000u128) as u64;
}
proof fn lemma_wsub(x: u64, y: u64)
    ensures x.wrapping_sub(y) == sub(x, y)
{
    let z: u64 = (((x as u128 + 0x1_0000_0000_0000_0000u128 - y as u128) as u128) % 0x1_0000_0000_0000_0000u128) as u64;
    assert(z == x.wrapping_sub(y));
    assert(z == sub(x, y)) by (bit_vector) requires z == (((x as u128 + 0x1_0000_0000_0000_0000u128 - y as u128) as u128) % 0x1_0000_0000_0000_0000u128) as u64;
}

// q*M = b*2^64 + xl where q = a = xl*(2^32+1) mod 2^64
proof fn lemma_qm(xl: u64, a: u64, ec: u64, b: u64)
    requires
        a == xl.wrapping_add(xl << 32),
        ec == (if (xl as int + (xl << 32) as int >= 0x1_0000_0000_0000_0000) { 1u64 } else { 0u64 }),
        b == a.wrapping_sub(a >> 32).wrapping_sub(ec),
    ensures
        a as int * P() == b as int * R() + xl as int,
{
    let sh: u64 = xl << 32;
    // carry flag in pure bit-vector terms
    assert(ec == (if add(xl, sh) < xl { 1u64 } else { 0u64 })) by {
        assert((xl as int + sh as int >= 0x1_0000_0000_0000_0000) == (add(xl, sh) < xl)) by (bit_vector);
    }
    lemma_wadd(xl, sh);
    assert(a == add(xl, sh));
    lemma_wsub(a, a >> 32);
    lemma_wsub(sub(a, a >> 32), ec);
    assert(b == sub(sub(a, a >> 32), ec));
    let a128 = a as u128; let b128 = b as u128; let xl128 = xl as u128;
    assert(sub(add(a128 << 64, a128), a128 << 32) == add(b128 << 64, xl128)) by (bit_vector)
        requires
            a == add(xl, xl << 32),
            ec == (if add(xl, xl << 32) < xl { 1u64 } else { 0u64 }),
            b == sub(sub(a, a >> 32), ec),
            a128 == a as u128, b128 == b as u128, xl128 == xl as u128;
    assert(a128 << 64 == a128 * 0x1_0000_0000_0000_0000u128) by (bit_vector) requires a128 < 0x1_0000_0000_0000_0000u128;
    assert(a128 << 32 == a128 * 0x1_0000_0000u128) by (bit_vector) requires a128 < 0x1_0000_0000_0000_0000u128;
    assert(b128 << 64 == b128 * 0x1_0000_0000_0000_0000u128) by (bit_vector) requires b128 < 0x1_0000_0000_0000_0000u128;
    assert(a as int * P() == a as int * R() + a as int - a as int * 0x1_0000_0000) by (nonlinear_arith)
        requires P() == R() - 0x1_0000_0000 + 1;
}

/// Montgomery reduction (constant time)
#[inline(always)]
const fn mont_red_cst(x: u128) -> (r: u64)
    requires (x as int) < P() * R(),
    ensures (r as int) < P(), (r as int * R()) % P() == (x as int) % P(),
{
    // See reference above for a description of the following implementation.
    let xl = x as u64;
    let xh = (x >> 64) as u64;
    let (a, e) = xl.overflowing_add(xl << 32);

    let b = a.wrapping_sub(a >> 32).wrapping_sub(e as u64);

    proof {
        let ec: u64 = if e { 1u64 } else { 0u64 };
        assert(e as u64 == ec);
        lemma_qm(xl, a, ec, b);
        // x = xh*R + xl
        assert(x as int == xh as int * R() + xl as int) by {
            assert(x == add(((x >> 64) as u64 as u128) << 64, (x as u64) as u128)) by (bit_vector);
            assert(((x >> 64) as u64 as u128) << 64 == ((x >> 64) as u64 as u128) * 0x1_0000_0000_0000_0000u128) by (bit_vector);
        }
        // b < M because a*M < R*M
        assert((b as int) < P()) by (nonlinear_arith)
            requires a as int * P() == b as int * R() + xl as int, 0 <= (a as int) < R(), 0 <= xl as int, R() > 0, P() > 0;
        assert((xh as int) < P()) by (nonlinear_arith)
            requires x as int == xh as int * R() + xl as int, (x as int) < P() * R(), 0 <= xl as int, R() > 0;
    }
    let (r, c) = xh.overflowing_sub(b);
    proof {
        let adj = 0u32.wrapping_sub(c as u32) as u64;
        assert(adj == (if c { 0xffff_ffffu64 } else { 0u64 }));
        let res = r.wrapping_sub(adj);
        // res = xh - b (+ M if borrow)
        assert(res as int == (if c { xh as int - b as int + P() } else { xh as int - b as int }));
        let k: int = if c { 1 } else { 0 };
        assert(res as int * R() == x as int - a as int * P() + k * P() * R()) by (nonlinear_arith)
            requires res as int == xh as int - b as int + k * P(),
                     x as int == xh as int * R() + xl as int,
                     a as int * P() == b as int * R() + xl as int;
        assert((res as int * R()) % P() == (x as int) % P()) by {
            let t = k * R() - a as int;
            assert(res as int * R() == x as int + t * P()) by (nonlinear_arith)
                requires res as int * R() == x as int - a as int * P() + k * P() * R(), t == k * R() - a as int;
            vstd::arithmetic::div_mod::lemma_mod_multiples_vanish(t, x as int, P());
        }
    }
    r.wrapping_sub(0u32.wrapping_sub(c as u32) as u64)
}

pub const R2: u64 = 0xfffffffe00000001;
pub open spec fn INV() -> int { 18446744065119617025 }

pub struct BaseElement(pub u64);
impl Copy for BaseElement {}
impl Clone for BaseElement { fn clone(&self) -> Self { *self } }

// 2^64 is invertible modulo M: cancel it
proof fn lemma_cancel_r(a: int, b: int)
    requires (a * R()) % P() == (b * R()) % P(), 0 <= a < P(), 0 <= b < P(),
    ensures a == b,
{
    assert((R() * INV()) % P() == 1) by (compute);
    // a == (a * (R*INV)) % P
    lemma_times_one(a); lemma_times_one(b);
    assert(((a * R()) * INV()) % P() == ((b * R()) * INV()) % P()) by {
        vstd::arithmetic::div_mod::lemma_mul_mod_noop_left(a * R(), INV(), P());
        vstd::arithmetic::div_mod::lemma_mul_mod_noop_left(b * R(), INV(), P());
    }
    assert((a * R()) * INV() == a * (R() * INV())) by (nonlinear_arith);
    assert((b * R()) * INV() == b * (R() * INV())) by (nonlinear_arith);
}
proof fn lemma_times_one(a: int)
    requires 0 <= a < P(), (R() * INV()) % P() == 1,
    ensures (a * (R() * INV())) % P() == a,
{
    vstd::arithmetic::div_mod::lemma_mul_mod_noop_right(a, R() * INV(), P());
    assert((a * 1) % P() == a) by { vstd::arithmetic::div_mod::lemma_small_mod(a as nat, P() as nat); }
}

#[inline(always)]
const fn mont_to_int(x: u64) -> (res: u64)
    ensures (res as int) < P(), (res as int * R()) % P() == (x as int) % P(),
{
    let (a, e) = x.overflowing_add(x << 32);
    let b = a.wrapping_sub(a >> 32).wrapping_sub(e as u64);

    proof {
        let ec: u64 = if e { 1u64 } else { 0u64 };
        assert(e as u64 == ec);
        lemma_qm(x, a, ec, b);
        assert((b as int) < P()) by (nonlinear_arith)
            requires a as int * P() == b as int * R() + x as int, 0 <= (a as int) < R(), 0 <= x as int, R() > 0, P() > 0;
    }
    let (r, c) = 0u64.overflowing_sub(b);
    proof {
        let adj = 0u32.wrapping_sub(c as u32) as u64;
        assert(adj == (if c { 0xffff_ffffu64 } else { 0u64 }));
        let res = r.wrapping_sub(adj);
        assert(res as int == (if c { 0 - b as int + P() } else { 0 - b as int }));
        let k: int = if c { 1 } else { 0 };
        assert(res as int * R() == x as int - a as int * P() + k * P() * R()) by (nonlinear_arith)
            requires res as int == 0 - b as int + k * P(),
                     a as int * P() == b as int * R() + x as int;
        assert((res as int * R()) % P() == (x as int) % P()) by {
            let t = k * R() - a as int;
            assert(res as int * R() == x as int + t * P()) by (nonlinear_arith)
                requires res as int * R() == x as int - a as int * P() + k * P() * R(), t == k * R() - a as int;
            vstd::arithmetic::div_mod::lemma_mod_multiples_vanish(t, x as int, P());
        }
    }
    r.wrapping_sub(0u32.wrapping_sub(c as u32) as u64)
}

impl BaseElement {
    pub const fn new(value: u64) -> (r: BaseElement)
        ensures (r.0 as int) < P(), (r.0 as int * R()) % P() == (value as int * R2 as int) % P(),
    {
        proof {
            assert((value as int * R2 as int) < P() * R()) by (nonlinear_arith)
                requires 0 <= value as int, (value as int) < R(), 0 <= (R2 as int), (R2 as int) < P();
            assert(0 <= value as int * R2 as int) by (nonlinear_arith) requires 0 <= value as int, 0 <= R2 as int;
        }
        Self(mont_red_cst((value as u128) * (R2 as u128)))
    }

    pub const fn as_int(&self) -> (r: u64)
        ensures (r as int) < P(), (r as int * R()) % P() == (self.0 as int) % P(),
    {
        mont_to_int(self.0)
    }
}

// canonical encoding: as_int(new(v)) == v for every v < M
fn roundtrip(v: u64) -> (r: u64)
    requires (v as int) < P(),
    ensures r == v,
{
    let e = BaseElement::new(v);
    let r = e.as_int();
    proof {
        // e.0 * R ≡ v * R2 ; R2 ≡ R*R (mod P) ; so e.0 ≡ v * R ; r * R ≡ e.0 ≡ v * R ; cancel R
        assert((R2 as int) % P() == (R() * R()) % P()) by (compute);
        let e0 = e.0 as int;
        assert((e0 * R()) % P() == ((v as int * R()) * R()) % P()) by {
            vstd::arithmetic::div_mod::lemma_mul_mod_noop_right(v as int, R2 as int, P());
            vstd::arithmetic::div_mod::lemma_mul_mod_noop_right(v as int, R() * R(), P());
            assert(v as int * (R() * R()) == (v as int * R()) * R()) by (nonlinear_arith);
        }
        // cancel one R: e0 ≡ v*R (mod P); e0 < P
        let w = (v as int * R()) % P();
        assert((w * R()) % P() == ((v as int * R()) * R()) % P()) by {
            vstd::arithmetic::div_mod::lemma_mul_mod_noop_left(v as int * R(), R(), P());
        }
        assert(0 <= w < P()) by { vstd::arithmetic::div_mod::lemma_mod_pos_bound(v as int * R(), P()); }
        lemma_cancel_r(e0, w);
        // r*R ≡ e0 = w = (v*R) % P  ==> r ≡ v
        assert((r as int * R()) % P() == (v as int * R()) % P()) by {
            vstd::arithmetic::div_mod::lemma_small_mod(e0 as nat, P() as nat);
            vstd::arithmetic::div_mod::lemma_mod_twice(v as int * R(), P());
        }
        lemma_cancel_r(r as int, v as int);
    }
    r
}

// ---- reduced trait declared by the prelude (signatures copied from math/src/field/traits.rs) ----
pub trait FieldElement: Sized + Copy {
    type PositiveInteger;
    spec fn wf(self) -> bool;
    fn double(self) -> (r: Self)
        requires self.wf(),
        ensures r.wf();
}

impl FieldElement for BaseElement {
    type PositiveInteger = u64;
    open spec fn wf(self) -> bool { (self.0 as int) < P() }

    #[inline]
    fn double(self) -> (r: Self)
        ensures (r.0 as int) == (2 * self.0 as int) % P(),
    {
        let ret = (self.0 as u128) << 1;
        let (result, over) = (ret as u64, (ret >> 64) as u64);
        Self(result.wrapping_sub(M * over))
    }
}
}
fn main(){}
