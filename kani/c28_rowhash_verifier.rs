//# unit: c28_rowhash_verifier
//# crate: verifier
//# mount: verifier/src/channel.rs
//# modpath: channel
//# assets: mocks
//# props: C28 C01
//! C28 / C01 (verifier side) — the verifier's private `hash_row` follows the shared row-digest rule
//! `crypto::verif_mocks::rowhash_spec`; the prover side (`RowMatrix::commit_to_rows`) is checked
//! against the same specification in unit c28_rowhash_prover, so both compute the same digest for
//! every hash function.
#![allow(unused_imports, dead_code)]
use alloc::vec::Vec;

use crypto::{verif_mocks::{self as mk, RecHasher, D, DN}, Digest};
use math::fields::f64::BaseElement as F64;
use utils::{vcheck, vreach, verif_support as vs};

use super::*;

type HR = RecHasher<F64>;

fn row_of<const W: usize>() -> ([F64; W], [u8; 48]) {
    let mut row = [F64::ZERO; W];
    let mut bytes = [0u8; 48];
    let mut i = 0;
    while i < W {
        let v = vs::any_u64();
        vs::assume(v < 0xffffffff00000001);
        row[i] = F64::from_mont(v);
        bytes[8 * i..8 * i + 8].copy_from_slice(&v.to_le_bytes());
        i += 1;
    }
    (row, bytes)
}

fn hash_row_follows_rule<const W: usize>(p: usize) {
    mk::reset();
    let (row, bytes) = row_of::<W>();
    let d = hash_row::<HR, F64>(&row, p);
    let spec = mk::rowhash_spec(0, &bytes[..8 * W], 8, p);
    let ok = match spec {
        Some((next, out)) => next == mk::calls() && d.as_bytes()[..DN] == out,
        None => false,
    };
    vcheck!("C28.rowhash.verifier.follows_rule", ok);
    // C01: prover and verifier derive the same leaf for the same row (both follow the one rule)
    vcheck!("C01.rowhash.verifier.same_rule_as_prover", ok);
}

/// the same rule for a row over the quadratic extension (auxiliary trace rows, constraint composition rows):
/// the partition size counts extension elements, the hashed bytes are the elements' base-field coordinates
fn hash_row_follows_rule_quad<const W: usize>(p: usize) {
    use math::fields::QuadExtension;
    type Q = QuadExtension<F64>;
    mk::reset();
    let mut row = [Q::ZERO; W];
    let mut i = 0;
    while i < W {
        let (a, b) = (vs::any_u64(), vs::any_u64());
        vs::assume(a < 0xffffffff00000001 && b < 0xffffffff00000001);
        row[i] = Q::new(F64::from_mont(a), F64::from_mont(b));
        i += 1;
    }
    let d = hash_row::<HR, Q>(&row, p);
    let spec = mk::rowhash_spec(0, Q::elements_as_bytes(&row), 16, p);
    let ok = match spec {
        Some((next, out)) => next == mk::calls() && d.as_bytes()[..DN] == out,
        None => false,
    };
    vcheck!("C28.rowhash.verifier.follows_rule.extension_field", ok);
    vcheck!("C01.rowhash.verifier.same_rule_as_prover.extension_field", ok);
}

//# harness: fn=verifier::channel::hash_row (row width 1, partition size 1: one partition: plain hash_elements); label=bounded(row of 1 base-field elements, partition size 1; every element, any hash function); tier=quick; uses=hash_row_follows_rule,row_of; timeout=600
#[cfg_attr(kani, kani::proof)]
#[cfg_attr(kani, kani::unwind(34))]
#[cfg_attr(kani, kani::stub(alloc::fmt::format, vs::fake_format))]
pub fn k_c28_verifier_hash_row_w1_p1() {
    hash_row_follows_rule::<1>(1);
    vreach!("C28.verifier.w1_p1.reach");
}

//# harness: fn=verifier::channel::hash_row (row width 4, partition size 4: one partition: plain hash_elements); label=bounded(row of 4 base-field elements, partition size 4; every element, any hash function); tier=quick; uses=hash_row_follows_rule,row_of; timeout=600
#[cfg_attr(kani, kani::proof)]
#[cfg_attr(kani, kani::unwind(34))]
#[cfg_attr(kani, kani::stub(alloc::fmt::format, vs::fake_format))]
pub fn k_c28_verifier_hash_row_w4_p4() {
    hash_row_follows_rule::<4>(4);
    vreach!("C28.verifier.w4_p4.reach");
}

//# harness: fn=verifier::channel::hash_row (row width 4, partition size 2: several chunks); label=bounded(row of 4 base-field elements, partition size 2; every element, any hash function); tier=quick; uses=hash_row_follows_rule,row_of; timeout=600
#[cfg_attr(kani, kani::proof)]
#[cfg_attr(kani, kani::unwind(34))]
#[cfg_attr(kani, kani::stub(alloc::fmt::format, vs::fake_format))]
pub fn k_c28_verifier_hash_row_w4_p2() {
    hash_row_follows_rule::<4>(2);
    vreach!("C28.verifier.w4_p2.reach");
}

//# harness: fn=verifier::channel::hash_row (row width 5, partition size 2: several chunks); label=bounded(row of 5 base-field elements, partition size 2; every element, any hash function); tier=quick; uses=hash_row_follows_rule,row_of; timeout=600
#[cfg_attr(kani, kani::proof)]
#[cfg_attr(kani, kani::unwind(34))]
#[cfg_attr(kani, kani::stub(alloc::fmt::format, vs::fake_format))]
pub fn k_c28_verifier_hash_row_w5_p2() {
    hash_row_follows_rule::<5>(2);
    vreach!("C28.verifier.w5_p2.reach");
}

//# harness: fn=verifier::channel::hash_row (row width 6, partition size 4: several chunks); label=bounded(row of 6 base-field elements, partition size 4; every element, any hash function); tier=quick; uses=hash_row_follows_rule,row_of; timeout=600
#[cfg_attr(kani, kani::proof)]
#[cfg_attr(kani, kani::unwind(34))]
#[cfg_attr(kani, kani::stub(alloc::fmt::format, vs::fake_format))]
pub fn k_c28_verifier_hash_row_w6_p4() {
    hash_row_follows_rule::<6>(4);
    vreach!("C28.verifier.w6_p4.reach");
}

//# harness: fn=verifier::channel::hash_row (row width 3, partition size 1: several chunks); label=bounded(row of 3 base-field elements, partition size 1; every element, any hash function); tier=quick; uses=hash_row_follows_rule,row_of; timeout=600
#[cfg_attr(kani, kani::proof)]
#[cfg_attr(kani, kani::unwind(34))]
#[cfg_attr(kani, kani::stub(alloc::fmt::format, vs::fake_format))]
pub fn k_c28_verifier_hash_row_w3_p1() {
    hash_row_follows_rule::<3>(1);
    vreach!("C28.verifier.w3_p1.reach");
}

//# harness: fn=verifier::channel::hash_row (row width 4, partition size 8: partition size larger than the row: one chunk, still merged); label=bounded(row of 4 base-field elements, partition size 8; every element, any hash function); tier=quick; uses=hash_row_follows_rule,row_of; timeout=600
#[cfg_attr(kani, kani::proof)]
#[cfg_attr(kani, kani::unwind(34))]
#[cfg_attr(kani, kani::stub(alloc::fmt::format, vs::fake_format))]
pub fn k_c28_verifier_hash_row_w4_p8() {
    hash_row_follows_rule::<4>(8);
    vreach!("C28.verifier.w4_p8.reach");
}

//# harness: fn=verifier::channel::hash_row (row width 2, partition size 3: partition size larger than the row: one chunk, still merged); label=bounded(row of 2 base-field elements, partition size 3; every element, any hash function); tier=quick; uses=hash_row_follows_rule,row_of; timeout=600
#[cfg_attr(kani, kani::proof)]
#[cfg_attr(kani, kani::unwind(34))]
#[cfg_attr(kani, kani::stub(alloc::fmt::format, vs::fake_format))]
pub fn k_c28_verifier_hash_row_w2_p3() {
    hash_row_follows_rule::<2>(3);
    vreach!("C28.verifier.w2_p3.reach");
}

//# harness: fn=verifier::channel::hash_row over QuadExtension (row of 2 extension elements, partition size 2); label=bounded(row of 2 quadratic-extension elements, partition size 2; every element, any hash function); tier=quick; uses=hash_row_follows_rule_quad; timeout=600
#[cfg_attr(kani, kani::proof)]
#[cfg_attr(kani, kani::unwind(34))]
#[cfg_attr(kani, kani::stub(alloc::fmt::format, vs::fake_format))]
pub fn k_c28_verifier_hash_row_ext_w2_p2() {
    hash_row_follows_rule_quad::<2>(2);
    vreach!("C28.verifier_ext.w2_p2.reach");
}

//# harness: fn=verifier::channel::hash_row over QuadExtension (row of 2 extension elements, partition size 1); label=bounded(row of 2 quadratic-extension elements, partition size 1; every element, any hash function); tier=quick; uses=hash_row_follows_rule_quad; timeout=600
#[cfg_attr(kani, kani::proof)]
#[cfg_attr(kani, kani::unwind(34))]
#[cfg_attr(kani, kani::stub(alloc::fmt::format, vs::fake_format))]
pub fn k_c28_verifier_hash_row_ext_w2_p1() {
    hash_row_follows_rule_quad::<2>(1);
    vreach!("C28.verifier_ext.w2_p1.reach");
}

//# harness: fn=verifier::channel::hash_row over QuadExtension (row of 3 extension elements, partition size 2); label=bounded(row of 3 quadratic-extension elements, partition size 2; every element, any hash function); tier=quick; uses=hash_row_follows_rule_quad; timeout=600
#[cfg_attr(kani, kani::proof)]
#[cfg_attr(kani, kani::unwind(34))]
#[cfg_attr(kani, kani::stub(alloc::fmt::format, vs::fake_format))]
pub fn k_c28_verifier_hash_row_ext_w3_p2() {
    hash_row_follows_rule_quad::<3>(2);
    vreach!("C28.verifier_ext.w3_p2.reach");
}

//# harness: fn=verifier::channel::hash_row over QuadExtension (row of 2 extension elements, partition size 4); label=bounded(row of 2 quadratic-extension elements, partition size 4; every element, any hash function); tier=quick; uses=hash_row_follows_rule_quad; timeout=600
#[cfg_attr(kani, kani::proof)]
#[cfg_attr(kani, kani::unwind(34))]
#[cfg_attr(kani, kani::stub(alloc::fmt::format, vs::fake_format))]
pub fn k_c28_verifier_hash_row_ext_w2_p4() {
    hash_row_follows_rule_quad::<2>(4);
    vreach!("C28.verifier_ext.w2_p4.reach");
}

