//# unit: c16_mds
//# crate: crypto
//# mount: crypto/src/hash/mds/mds_f64_12x12.rs
//# modpath: hash::mds::mds_f64_12x12
//# props: C16
//! C16 — the frequency-domain MDS multiplication used by Rp64_256, as two modular contracts (the whole of
//! `mds_multiply` against the matrix product in one query did not finish in 50 minutes). Only the SECOND contract
//! is decided; the first did not finish either and is not claimed:
//! * `mds_multiply_freq` on 12 words below 2^32 (how `mds_multiply` calls it: on the low and on the high halves)
//!   returns, word by word and without any reduction, the integer product with the published circulant matrix
//!   (first row 7, 23, 8, 26, 13, 10, 9, 7, 6, 22, 21, 8) - all multiplications are by small constants;
//! * `mds_multiply`, with `mds_multiply_freq` replaced by a stand-in returning arbitrary words in the range the
//!   first contract implies (< 2^41), recombines low + 2^32 * high and reduces the 96-bit value correctly:
//!   result == low + 2^32 * high (mod p) - as a residue below 2^64, not necessarily below p.
#![allow(unused_imports, dead_code, static_mut_refs)]
use utils::{vcheck, vreach, verif_support as vs};

use super::*;

const P: u128 = 0xffff_ffff_0000_0001;
const ROW: [u64; 12] = [7, 23, 8, 26, 13, 10, 9, 7, 6, 22, 21, 8];

/// output word `r` of mds_multiply_freq against row `r` of the circulant matrix, over the integers
fn freq_word_matches(r: usize) {
    let mut s = [0u64; 12];
    let mut i = 0;
    while i < 12 {
        let v = vs::any_u32();
        s[i] = v as u64;
        i += 1;
    }
    let t = mds_multiply_freq(s);
    let mut acc: u64 = 0;
    let mut j = 0;
    while j < 12 {
        // M[r][j] = ROW[(j - r) mod 12]
        acc += ROW[(j + 12 - r) % 12] * s[j];
        j += 1;
    }
    vcheck!("C16.rp64.mds_freq.word_equals_integer_matrix_row_product", t[r] == acc);
}

static mut FREQ_OUT: [[u64; 12]; 2] = [[0; 12]; 2];
static mut FREQ_CALLS: usize = 0;
/// stands for mds_multiply_freq: arbitrary outputs in the range its contract implies (12 * 26 * 2^32 < 2^41)
fn fresh_freq(_state: [u64; 12]) -> [u64; 12] {
    unsafe {
        let k = FREQ_CALLS;
        FREQ_CALLS += 1;
        FREQ_OUT[k & 1]
    }
}

//# harness: fn=mds_multiply (recombination of the two halves and final 96-bit reduction); label=complete (every pair of frequency-domain outputs below 2^41 per word); tier=quick; timeout=900
#[cfg_attr(kani, kani::proof)]
#[cfg_attr(kani, kani::unwind(14))]
#[cfg_attr(kani, kani::stub(mds_multiply_freq, fresh_freq))]
pub fn k_c16_mds_recombine_and_reduce() {
    let mut h = [0u64; 12];
    let mut l = [0u64; 12];
    let mut i = 0;
    while i < 12 {
        h[i] = vs::any_u64();
        l[i] = vs::any_u64();
        vs::assume(h[i] < (1 << 41) && l[i] < (1 << 41));
        i += 1;
    }
    unsafe {
        FREQ_CALLS = 0;
        FREQ_OUT = [h, l]; // the code transforms the high halves first
    }
    let mut state = [BaseElement::ZERO; 12];
    mds_multiply(&mut state);
    let r = vs::any_usize();
    vs::assume(r < 12);
    // reference: low + 2^32 * high < 2^74, reduced without division (2^64 = 2^32 - 1 mod p)
    let acc = l[r] as u128 + ((h[r] as u128) << 32);
    let mut w = (acc & 0xffff_ffff_ffff_ffff) + (acc >> 64) * 0xffff_ffff;
    if w >= P {
        w -= P;
    }
    if w >= P {
        w -= P;
    }
    let got = state[r].inner() as u128;
    // the result is the right residue class; it is NOT always the canonical representative (witness: state word 0 =
    // from_mont(10540996611094048184), others zero, gives inner value p + 4) - see the obligation
    // C16.rp64.add_constants.canonicalises_any_mds_output in unit c16_rp64 for why that does not reach the digest
    vcheck!("C16.rp64.mds.recombination_reduced_correctly", unsafe { FREQ_CALLS } == 2 && (got == w || got == w + P));
    vreach!("C16.mds.reduce.reach");
}

// (the first contract - `mds_multiply_freq` equals the integer matrix product, one output word over all 12 x 32-bit
// inputs - did not finish in 15 minutes and is NOT claimed; `freq_word_matches` is kept for reference only)
