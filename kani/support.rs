//! Verification-only support code, mounted into a scratch copy of `winter-utils` as
//! `utils::verif_support` under `cfg(any(kani, verif_replay))`. Never part of /repo.
//!
//! * under `cfg(kani)` the value sources are `kani::any()` and `assume` is `kani::assume`;
//! * under `cfg(verif_replay)` the same harness bodies run natively: values are popped from a
//!   recorded list of byte vectors (the `concrete_vals` of Kani's concrete playback) and a
//!   failed check panics with the obligation id.
#![allow(dead_code, unused_imports, clippy::all)]

use alloc::{string::String, vec::Vec};

use crate::{ByteReader, DeserializationError};

// VALUE SOURCE
// ================================================================================================

#[cfg(verif_replay)]
mod replay_state {
    extern crate std;
    use std::{string::String, vec::Vec};
    pub static mut VALUES: Vec<Vec<u8>> = Vec::new();
    pub static mut POS: usize = 0;
    pub static mut TAKEN: Vec<u8> = Vec::new();

    pub fn load(vals: Vec<Vec<u8>>) {
        unsafe {
            VALUES = vals;
            POS = 0;
        }
    }

    /// Loads the values from the file named by VERIF_REPLAY_VALUES: one value per line, hex bytes.
    pub fn load_from_env() {
        let path = std::env::var("VERIF_REPLAY_VALUES").expect("VERIF_REPLAY_VALUES not set");
        let text = std::fs::read_to_string(path).expect("cannot read replay values");
        let mut vals = Vec::new();
        for line in text.lines() {
            let line = line.trim();
            if line.starts_with('#') {
                continue;
            }
            let mut v = Vec::new();
            let b = line.as_bytes();
            let mut i = 0;
            while i + 1 < b.len() {
                let s = core::str::from_utf8(&b[i..i + 2]).unwrap();
                v.push(u8::from_str_radix(s, 16).unwrap());
                i += 2;
            }
            vals.push(v);
        }
        load(vals);
    }

    pub fn pop(n: usize) -> Vec<u8> {
        unsafe {
            #[allow(static_mut_refs)]
            let vals = &VALUES;
            if POS >= vals.len() {
                // values beyond the recorded ones are unconstrained in the counterexample
                POS += 1;
                return std::vec![0u8; n];
            }
            let mut v = vals[POS].clone();
            POS += 1;
            v.resize(n, 0);
            v
        }
    }
    pub fn next_len() -> usize {
        unsafe {
            #[allow(static_mut_refs)]
            let vals = &VALUES;
            if POS < vals.len() { vals[POS].len() } else { 0 }
        }
    }
    pub fn describe() -> String {
        unsafe { std::format!("values consumed: {}", POS) }
    }
}

#[cfg(verif_replay)]
pub use replay_state::{load as replay_load, load_from_env as replay_load_from_env};

macro_rules! src_fn {
    ($name:ident, $t:ty, $n:expr) => {
        #[cfg(kani)]
        #[inline(always)]
        pub fn $name() -> $t {
            kani::any()
        }
        #[cfg(all(verif_replay, not(kani)))]
        pub fn $name() -> $t {
            let v = replay_state::pop($n);
            let mut b = [0u8; $n];
            b.copy_from_slice(&v[..$n]);
            <$t>::from_le_bytes(b)
        }
    };
}
src_fn!(any_u8, u8, 1);
src_fn!(any_u16, u16, 2);
src_fn!(any_u32, u32, 4);
src_fn!(any_u64, u64, 8);
src_fn!(any_u128, u128, 16);
src_fn!(any_usize, usize, 8);

#[cfg(kani)]
#[inline(always)]
pub fn any_bool() -> bool {
    kani::any()
}
#[cfg(all(verif_replay, not(kani)))]
pub fn any_bool() -> bool {
    replay_state::pop(1)[0] != 0
}

/// Array of symbolic bytes (a single nondeterministic array value: no loop to unwind).
#[cfg(kani)]
#[inline(always)]
pub fn any_bytes<const N: usize>() -> [u8; N] {
    kani::any()
}
#[cfg(all(verif_replay, not(kani)))]
pub fn any_bytes<const N: usize>() -> [u8; N] {
    // Kani's playback records a symbolic byte array either as one N-byte value or as N one-byte values
    let mut r = [0u8; N];
    if N == 0 {
        return r;
    }
    if replay_state::next_len() == 1 && N > 1 {
        let mut i = 0;
        while i < N {
            r[i] = replay_state::pop(1)[0];
            i += 1;
        }
        return r;
    }
    let v = replay_state::pop(N);
    r.copy_from_slice(&v[..N]);
    r
}

#[cfg(kani)]
#[inline(always)]
pub fn assume(c: bool) {
    kani::assume(c)
}
#[cfg(all(verif_replay, not(kani)))]
pub fn assume(c: bool) {
    if !c {
        panic!("VERIF-REPLAY-ASSUMPTION-FAILED");
    }
}

#[cfg(all(verif_replay, not(kani)))]
pub fn replay_check(id: &'static str, c: bool) {
    if !c {
        panic!("VERIF-CHECK-FAILED {}", id);
    }
}

/// `vcheck!("obligation id", cond)`: a named proof obligation.
#[macro_export]
macro_rules! vcheck {
    ($id:literal, $c:expr) => {{
        // Kani's assert is assert-then-assume: after a failing obligation the inputs that fail it are cut from
        // every later obligation of the harness, so a second obligation violated by the same inputs would be
        // reported as holding (seen with seed C17-merge-with-int-modulus-counter: the C16 obligation before it
        // masked the C17 one). Each obligation is therefore asserted under its own nondeterministic guard: the
        // assumption only binds the guarded branch and the obligations are decided independently.
        let verif_cond: bool = $c;
        if $crate::verif_support::any_bool() {
            #[cfg(kani)]
            kani::assert(verif_cond, $id);
            #[cfg(all(verif_replay, not(kani)))]
            $crate::verif_support::replay_check($id, verif_cond);
        }
    }};
}

/// `vreach!("id")`: reachability witness guarding against vacuous preconditions.
#[macro_export]
macro_rules! vreach {
    ($id:literal) => {{
        #[cfg(kani)]
        kani::cover!(true, $id);
    }};
}

pub fn fake_format(_a: core::fmt::Arguments<'_>) -> String {
    String::new()
}

// NONDETERMINISTIC READER
// ================================================================================================

/// A `ByteReader` handing out unconstrained bytes from a byte budget. Every byte a decoder sees
/// is symbolic, so every tag / count / length field takes every value. When the budget is
/// exhausted reads fail with `UnexpectedEOF`, exactly as `SliceReader` does at the end of input.
pub struct NondetReader {
    pub budget: usize,
    peeked: core::cell::Cell<Option<u8>>,
    scratch: Vec<u8>,
    pub consumed: Vec<u8>,
    record: bool,
}

impl NondetReader {
    pub fn new(budget: usize) -> Self {
        Self {
            budget,
            peeked: core::cell::Cell::new(None),
            scratch: Vec::new(),
            consumed: Vec::new(),
            record: false,
        }
    }
    pub fn recording(budget: usize) -> Self {
        let mut r = Self::new(budget);
        r.record = true;
        r
    }
    fn next(&mut self) -> Result<u8, DeserializationError> {
        if self.budget == 0 {
            return Err(DeserializationError::UnexpectedEOF);
        }
        self.budget -= 1;
        let b = match self.peeked.take() {
            Some(b) => b,
            None => any_u8(),
        };
        if self.record {
            self.consumed.push(b);
        }
        Ok(b)
    }
}

impl ByteReader for NondetReader {
    fn read_u8(&mut self) -> Result<u8, DeserializationError> {
        self.next()
    }
    fn peek_u8(&self) -> Result<u8, DeserializationError> {
        if self.budget == 0 {
            return Err(DeserializationError::UnexpectedEOF);
        }
        match self.peeked.get() {
            Some(b) => Ok(b),
            None => {
                let b = any_u8();
                self.peeked.set(Some(b));
                Ok(b)
            },
        }
    }
    fn read_slice(&mut self, len: usize) -> Result<&[u8], DeserializationError> {
        if len > self.budget {
            return Err(DeserializationError::UnexpectedEOF);
        }
        self.scratch.clear();
        let mut i = 0;
        while i < len {
            let b = self.next()?;
            self.scratch.push(b);
            i += 1;
        }
        Ok(&self.scratch)
    }
    fn read_array<const N: usize>(&mut self) -> Result<[u8; N], DeserializationError> {
        if N > self.budget {
            return Err(DeserializationError::UnexpectedEOF);
        }
        let mut r = [0u8; N];
        let mut i = 0;
        while i < N {
            r[i] = self.next()?;
            i += 1;
        }
        Ok(r)
    }
    fn check_eor(&self, num_bytes: usize) -> Result<(), DeserializationError> {
        if num_bytes > self.budget {
            Err(DeserializationError::UnexpectedEOF)
        } else {
            Ok(())
        }
    }
    fn has_more_bytes(&self) -> bool {
        self.budget > 0
    }
}

// FIXED-CAPACITY WRITER
// ================================================================================================

/// A `ByteWriter` over a fixed array: encodings are produced without any heap growth, so that the
/// encoded length stays a concrete value for the verifier whenever the shape is concrete.
pub struct ArrayWriter<const N: usize> {
    pub buf: [u8; N],
    pub pos: usize,
}

impl<const N: usize> ArrayWriter<N> {
    pub fn new() -> Self {
        Self { buf: [0u8; N], pos: 0 }
    }
    pub fn written(&self) -> &[u8] {
        &self.buf[..self.pos]
    }
    fn put(&mut self, bytes: &[u8]) {
        assert!(self.pos + bytes.len() <= N, "ArrayWriter capacity exceeded");
        self.buf[self.pos..self.pos + bytes.len()].copy_from_slice(bytes);
        self.pos += bytes.len();
    }
}

#[cfg(feature = "std")]
impl<const N: usize> std::io::Write for ArrayWriter<N> {
    fn write(&mut self, bytes: &[u8]) -> std::io::Result<usize> {
        self.put(bytes);
        Ok(bytes.len())
    }
    fn write_all(&mut self, bytes: &[u8]) -> std::io::Result<()> {
        self.put(bytes);
        Ok(())
    }
    fn flush(&mut self) -> std::io::Result<()> {
        Ok(())
    }
}

#[cfg(not(feature = "std"))]
impl<const N: usize> crate::ByteWriter for ArrayWriter<N> {
    fn write_u8(&mut self, value: u8) {
        self.put(&[value]);
    }
    fn write_bytes(&mut self, values: &[u8]) {
        self.put(values);
    }
}
