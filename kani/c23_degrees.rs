//# unit: c23_degrees
//# crate: air
//# mount: air/src/air/context.rs
//# modpath: air::context
//# props: C23 C01
//! C23 (integer clauses) / C01 — declared constraint degrees yield the documented evaluation
//! degrees, sufficient minimum blowup factors and enough composition columns to hold the
//! composition polynomial. Integer code: complete in base degree, blowup, exemption count for each
//! enumerated trace length / cycle shape (shapes are concrete: symbolic shapes do not terminate).
#![allow(unused_imports, dead_code)]
use alloc::vec::Vec;

use math::fields::f128::BaseElement as F;
use math::FieldElement;
use utils::{vcheck, vreach, verif_support as vs};

use super::*;
use crate::{BatchingMethod, FieldExtension, TransitionConstraintDegree};

//# harness: fn=TransitionConstraintDegree::get_evaluation_degree, min_blowup_factor; label=complete in base degree (1..=255) and trace length 2^3..2^31 for cycle shapes [], [2^c], [2^c, 2^d]; tier=quick; timeout=400
#[cfg_attr(kani, kani::proof)]
#[cfg_attr(kani, kani::unwind(5))]
#[cfg_attr(kani, kani::stub(alloc::fmt::format, vs::fake_format))]
pub fn k_c23_evaluation_degree_and_blowup() {
    let base = vs::any_usize();
    vs::assume(base >= 1 && base <= 255);
    let k = vs::any_u32();
    vs::assume(k >= 3 && k <= 31);
    let n = 1usize << k;
    let (c, d) = (vs::any_u32(), vs::any_u32());
    vs::assume(c >= 1 && c <= k && d >= 1 && d <= k);
    let (c1, c2) = (1usize << c, 1usize << d);

    let d0 = TransitionConstraintDegree::new(base);
    vcheck!("C23.degree.evaluation_degree.no_cycles", d0.get_evaluation_degree(n) == base * (n - 1));
    let d1 = TransitionConstraintDegree::with_cycles(base, alloc::vec![c1]);
    vcheck!("C23.degree.evaluation_degree.one_cycle", d1.get_evaluation_degree(n) == base * (n - 1) + (n / c1) * (c1 - 1));
    let d2 = TransitionConstraintDegree::with_cycles(base, alloc::vec![c1, c2]);
    vcheck!("C23.degree.evaluation_degree.two_cycles",
        d2.get_evaluation_degree(n) == base * (n - 1) + (n / c1) * (c1 - 1) + (n / c2) * (c2 - 1));
    // minimum blowup: a power of two >= 2 that is enough for the composition polynomial
    // (degree = evaluation degree - divisor degree n - 1) to fit the constraint evaluation domain
    let b0 = d0.min_blowup_factor();
    let b1 = d1.min_blowup_factor();
    let b2 = d2.min_blowup_factor();
    vcheck!("C23.min_blowup.power_of_two_at_least_2", b0.is_power_of_two() && b0 >= 2 && b1.is_power_of_two() && b1 >= 2 && b2.is_power_of_two() && b2 >= 2);
    vcheck!("C23.min_blowup.sufficient.no_cycles", b0 * n > d0.get_evaluation_degree(n) - (n - 1));
    vcheck!("C23.min_blowup.sufficient.one_cycle", b1 * n > d1.get_evaluation_degree(n) - (n - 1));
    vcheck!("C23.min_blowup.sufficient.two_cycles", b2 * n > d2.get_evaluation_degree(n) - (n - 1));
    vreach!("C23.degree.reach");
}

fn context_for(n: usize, degree: TransitionConstraintDegree, blowup: usize) -> AirContext<F> {
    let options = ProofOptions::new(1, blowup, 0, FieldExtension::None, 2, 1, BatchingMethod::Linear, BatchingMethod::Linear);
    AirContext::<F> {
        options,
        trace_info: TraceInfo::new(1, n),
        main_transition_constraint_degrees: alloc::vec![degree.clone()],
        aux_transition_constraint_degrees: Vec::new(),
        num_main_assertions: 1,
        num_aux_assertions: 0,
        ce_blowup_factor: degree.min_blowup_factor(),
        // the generators play no role in the integer clauses (avoids 128-bit exponentiations)
        trace_domain_generator: F::ONE,
        lde_domain_generator: F::ONE,
        num_transition_exemptions: 1,
    }
}

/// for every context the constructors and set_num_transition_exemptions accept (given shape):
/// columns * n >= D + 1 coefficients and the constraint evaluation domain exceeds D
fn columns_enough(n: usize, cycle: Option<usize>) {
    let base = vs::any_usize();
    vs::assume(base >= 1 && base <= 8);
    let degree = match cycle {
        None => TransitionConstraintDegree::new(base),
        Some(c) => TransitionConstraintDegree::with_cycles(base, alloc::vec![c]),
    };
    let lb = vs::any_u32();
    vs::assume(lb >= 1 && lb <= 7);
    let blowup = 1usize << lb;
    vs::assume(blowup >= degree.min_blowup_factor());
    let ctx = context_for(n, degree.clone(), blowup);
    let e = vs::any_usize();
    // preconditions of set_num_transition_exemptions
    vs::assume(e >= 1 && e <= n / 2 + 1);
    let eval_degree = degree.get_evaluation_degree(n);
    vs::assume(e <= ctx.ce_domain_size() - 1 + n - eval_degree);
    let ctx = ctx.set_num_transition_exemptions(e);
    let d = eval_degree - (n - e);
    vcheck!("C23.composition_columns.hold_all_coefficients", ctx.num_constraint_composition_columns() * n >= d + 1);
    vcheck!("C23.ce_domain.exceeds_composition_degree", ctx.ce_domain_size() > d);
    // C01 (necessary condition for honest proofs to verify): the composition polynomial of an honest prover
    // fits the columns the verifier expects
    vcheck!("C01.composition_columns.hold_all_coefficients", ctx.num_constraint_composition_columns() * n >= d + 1);
    vcheck!("C23.composition_columns.at_least_one", ctx.num_constraint_composition_columns() >= 1);
}

//# harness: fn=AirContext::num_constraint_composition_columns, set_num_transition_exemptions, ce_domain_size (trace length 8, no cycle); label=complete in base degree 1..=8, blowup, exemption count for trace length 8 (no cycle); tier=quick; props=C23,C01; uses=columns_enough,context_for; timeout=900
#[cfg_attr(kani, kani::proof)]
#[cfg_attr(kani, kani::unwind(5))]
#[cfg_attr(kani, kani::stub(alloc::fmt::format, vs::fake_format))]
pub fn k_c23_composition_columns_n8() {
    columns_enough(8, None);
    vreach!("C23.columns.n8.reach");
}

//# harness: fn=AirContext::num_constraint_composition_columns, set_num_transition_exemptions, ce_domain_size (trace length 8, cycle 2); label=complete in base degree 1..=8, blowup, exemption count for trace length 8 (cycle 2); tier=quick; props=C23,C01; uses=columns_enough,context_for; timeout=900
#[cfg_attr(kani, kani::proof)]
#[cfg_attr(kani, kani::unwind(5))]
#[cfg_attr(kani, kani::stub(alloc::fmt::format, vs::fake_format))]
pub fn k_c23_composition_columns_n8_c2() {
    columns_enough(8, Some(2));
    vreach!("C23.columns.n8_c2.reach");
}

//# harness: fn=AirContext::num_constraint_composition_columns, set_num_transition_exemptions, ce_domain_size (trace length 1024, no cycle); label=complete in base degree 1..=8, blowup, exemption count for trace length 1024 (no cycle); tier=quick; props=C23,C01; uses=columns_enough,context_for; timeout=900
#[cfg_attr(kani, kani::proof)]
#[cfg_attr(kani, kani::unwind(5))]
#[cfg_attr(kani, kani::stub(alloc::fmt::format, vs::fake_format))]
pub fn k_c23_composition_columns_n1024() {
    columns_enough(1024, None);
    vreach!("C23.columns.n1024.reach");
}

//# harness: fn=AirContext::num_constraint_composition_columns, set_num_transition_exemptions, ce_domain_size (trace length 1024, cycle 8); label=complete in base degree 1..=8, blowup, exemption count for trace length 1024 (cycle 8); tier=quick; props=C23,C01; uses=columns_enough,context_for; timeout=900
#[cfg_attr(kani, kani::proof)]
#[cfg_attr(kani, kani::unwind(5))]
#[cfg_attr(kani, kani::stub(alloc::fmt::format, vs::fake_format))]
pub fn k_c23_composition_columns_n1024_c8() {
    columns_enough(1024, Some(8));
    vreach!("C23.columns.n1024_c8.reach");
}

/// the other direction of `columns_enough`: whatever exemption count `set_num_transition_exemptions` ACCEPTS
/// (it rejects by panicking; those paths end there and are not counted in this harness), the composition
/// polynomial fits the constraint evaluation domain and the composition columns
fn accepted_exemptions_fit(n: usize, cycle: Option<usize>) {
    let base = vs::any_usize();
    vs::assume(base >= 1 && base <= 8);
    let degree = match cycle {
        None => TransitionConstraintDegree::new(base),
        Some(c) => TransitionConstraintDegree::with_cycles(base, alloc::vec![c]),
    };
    let lb = vs::any_u32();
    vs::assume(lb >= 1 && lb <= 7);
    let blowup = 1usize << lb;
    vs::assume(blowup >= degree.min_blowup_factor());
    let ctx = context_for(n, degree.clone(), blowup);
    let e = vs::any_usize();
    vs::assume(e >= 1 && e <= n);
    let eval_degree = degree.get_evaluation_degree(n);
    let ctx = ctx.set_num_transition_exemptions(e);
    // reached only when the exemption count was accepted
    let d = eval_degree - (n - e);
    vcheck!("C23.exemptions.accepted_only_if_composition_fits_ce_domain", ctx.ce_domain_size() > d);
    vcheck!("C23.exemptions.accepted_only_if_columns_hold_all_coefficients", ctx.num_constraint_composition_columns() * n >= d + 1
        && ctx.num_constraint_composition_columns() * n <= ctx.ce_domain_size());
}

//# harness: fn=AirContext::set_num_transition_exemptions (accepted counts fit; trace length 8, no cycle); label=complete in base degree 1..=8, blowup 2..=128, exemption count 1..=n for trace length 8 (no cycle); tier=quick; props=C23; panics=ignore; replay=no; uses=accepted_exemptions_fit,context_for; timeout=900
#[cfg_attr(kani, kani::proof)]
#[cfg_attr(kani, kani::unwind(5))]
#[cfg_attr(kani, kani::stub(alloc::fmt::format, vs::fake_format))]
pub fn k_c23_accepted_exemptions_fit_n8() {
    accepted_exemptions_fit(8, None);
    vreach!("C23.exemptions.n8.reach");
}

//# harness: fn=AirContext::set_num_transition_exemptions (accepted counts fit; trace length 8, cycle 8); label=complete in base degree 1..=8, blowup 2..=128, exemption count 1..=n for trace length 8 (cycle 8); tier=quick; props=C23; panics=ignore; replay=no; uses=accepted_exemptions_fit,context_for; timeout=900
#[cfg_attr(kani, kani::proof)]
#[cfg_attr(kani, kani::unwind(5))]
#[cfg_attr(kani, kani::stub(alloc::fmt::format, vs::fake_format))]
pub fn k_c23_accepted_exemptions_fit_n8_c8() {
    accepted_exemptions_fit(8, Some(8));
    vreach!("C23.exemptions.n8_c8.reach");
}

//# harness: fn=AirContext::set_num_transition_exemptions (accepted counts fit; trace length 1024, cycle 2); label=complete in base degree 1..=8, blowup 2..=128, exemption count 1..=n for trace length 1024 (cycle 2); tier=quick; props=C23; panics=ignore; replay=no; uses=accepted_exemptions_fit,context_for; timeout=900
#[cfg_attr(kani, kani::proof)]
#[cfg_attr(kani, kani::unwind(5))]
#[cfg_attr(kani, kani::stub(alloc::fmt::format, vs::fake_format))]
pub fn k_c23_accepted_exemptions_fit_n1024_c2() {
    accepted_exemptions_fit(1024, Some(2));
    vreach!("C23.exemptions.n1024_c2.reach");
}

