//# unit: c14_slices
//# crate: utils/core
//# mount: utils/core/src/lib.rs
//# modpath:
//# props: C14
//! C14 — slice grouping, flattening and transposition preserve element order (payloads are bytes:
//! the functions are generic and never look at the elements).
#![allow(unused_imports, dead_code)]
use alloc::vec::Vec;

use super::*;
use crate::{vcheck, vreach, verif_support as vs};

//# harness: fn=group_slice_elements, flatten_slice_elements, flatten_vector_elements; label=bounded(12 symbolic bytes; group sizes 2, 3, 4); tier=quick
#[cfg_attr(kani, kani::proof)]
#[cfg_attr(kani, kani::unwind(14))]
#[cfg_attr(kani, kani::stub(alloc::fmt::format, vs::fake_format))]
pub fn k_c14_group_and_flatten() {
    let b: [u8; 12] = vs::any_bytes();
    let g2 = group_slice_elements::<u8, 2>(&b);
    let g3 = group_slice_elements::<u8, 3>(&b);
    let g4 = group_slice_elements::<u8, 4>(&b);
    vcheck!("C14.group.lengths", g2.len() == 6 && g3.len() == 4 && g4.len() == 3);
    let i = vs::any_usize();
    vs::assume(i < 12);
    vcheck!("C14.group.order_preserved", g2[i / 2][i % 2] == b[i] && g3[i / 3][i % 3] == b[i] && g4[i / 4][i % 4] == b[i]);
    let f = flatten_slice_elements(g3);
    vcheck!("C14.flatten_slice.inverse_of_group", f.len() == 12 && f[i] == b[i]);
    let v: Vec<[u8; 3]> = g3.to_vec();
    let fv = flatten_vector_elements(v);
    vcheck!("C14.flatten_vector.order_preserved", fv.len() == 12 && fv[i] == b[i]);
    vreach!("C14.group.reach");
}

//# harness: fn=transpose_slice; label=bounded(12 symbolic bytes; N = 2, 3, 4); tier=quick
#[cfg_attr(kani, kani::proof)]
#[cfg_attr(kani, kani::unwind(14))]
#[cfg_attr(kani, kani::stub(alloc::fmt::format, vs::fake_format))]
pub fn k_c14_transpose() {
    let b: [u8; 12] = vs::any_bytes();
    let t2 = transpose_slice::<u8, 2>(&b);
    let t3 = transpose_slice::<u8, 3>(&b);
    let t4 = transpose_slice::<u8, 4>(&b);
    vcheck!("C14.transpose.lengths", t2.len() == 6 && t3.len() == 4 && t4.len() == 3);
    let i = vs::any_usize();
    let j = vs::any_usize();
    // documented layout: result[i][j] == source[i + j * row_count]
    vs::assume(i < 4 && j < 3);
    vcheck!("C14.transpose.n3_layout", t3[i][j] == b[i + j * 4]);
    vs::assume(i < 3);
    vcheck!("C14.transpose.n4_layout", t4[i][j] == b[i + j * 3]);
    vreach!("C14.transpose.reach");
}
