//# unit: c23_periodic
//# crate: air
//# mount: air/src/air/mod.rs
//# modpath: air
//# assets: tiny models
//# props: C23
//# subst: air/src/air/mod.rs | use alloc::{collections::BTreeMap, vec::Vec}; | use alloc::vec::Vec; #[cfg(kani)] use utils::verif_models::BTreeMap; #[cfg(not(kani))] use alloc::collections::BTreeMap;
//! C23 (periodic columns) — the polynomials `Air::get_periodic_column_polys` derives from a periodic
//! column reproduce the column's cycle values at every trace step, evaluated the way the verifier and the
//! prover's constraint evaluator evaluate them: at x^(trace_length / cycle_length) for the trace-domain
//! point x = g^step. Over the verification-only field F_17, trace length 8, cycle lengths 2 and 4 (one
//! harness per cycle length), cycle values symbolic.
#![allow(unused_imports, dead_code)]
use alloc::vec::Vec;

use math::{
    polynom,
    verif_tinyfield::{Tiny, P},
};
use utils::{vcheck, vreach, verif_support as vs};

use super::*;
use crate::FieldExtension;

const N: usize = 8;

fn any_tiny() -> Tiny {
    let v = vs::any_u32();
    vs::assume(v < P);
    Tiny(v)
}

pub struct NoInputs;
impl ToElements<Tiny> for NoInputs {
    fn to_elements(&self) -> Vec<Tiny> {
        Vec::new()
    }
}

/// an AIR with one column and one periodic column holding `values`
pub struct PeriodicAir {
    ctx: AirContext<Tiny>,
    values: Vec<Tiny>,
}
impl Air for PeriodicAir {
    type BaseField = Tiny;
    type PublicInputs = NoInputs;
    fn new(_trace_info: TraceInfo, _pi: NoInputs, _options: ProofOptions) -> Self {
        unreachable!()
    }
    fn context(&self) -> &AirContext<Tiny> {
        &self.ctx
    }
    fn evaluate_transition<E: FieldElement<BaseField = Tiny>>(
        &self,
        _frame: &EvaluationFrame<E>,
        _periodic_values: &[E],
        _result: &mut [E],
    ) {
    }
    fn get_assertions(&self) -> Vec<Assertion<Tiny>> {
        Vec::new()
    }
    fn get_periodic_column_values(&self) -> Vec<Vec<Tiny>> {
        alloc::vec![self.values.clone()]
    }
}

fn reproduces_cycle(values: Vec<Tiny>) {
    let cycle = values.len();
    let options =
        ProofOptions::new(1, 2, 0, FieldExtension::None, 2, 1, BatchingMethod::Linear, BatchingMethod::Linear);
    let degrees = alloc::vec![TransitionConstraintDegree::with_cycles(1, alloc::vec![cycle])];
    let air = PeriodicAir { ctx: AirContext::new(TraceInfo::new(1, N), degrees, 1, options), values: values.clone() };
    let polys = air.get_periodic_column_polys();
    vcheck!("C23.periodic_polys.one_poly_of_cycle_length", polys.len() == 1 && polys[0].len() == cycle);
    let g = Tiny::get_root_of_unity(3);
    let mut x = Tiny::ONE;
    let mut ok = true;
    let mut step = 0;
    while step < N {
        // x^(n / cycle), as evaluated by the verifier (evaluate_constraints) and the prover's periodic table
        let mut y = Tiny::ONE;
        let mut i = 0;
        while i < N / cycle {
            y = y * x;
            i += 1;
        }
        ok = ok && polynom::eval(&polys[0], y) == values[step % cycle];
        x = x * g;
        step += 1;
    }
    vcheck!("C23.periodic_polys.reproduce_cycle_values_at_every_step", ok);
}

//# harness: fn=Air::get_periodic_column_polys (cycle length 2); label=bounded(F_17, trace length 8, cycle of 2 symbolic values); tier=quick; uses=reproduces_cycle,any_tiny; timeout=900
#[cfg_attr(kani, kani::proof)]
#[cfg_attr(kani, kani::unwind(12))]
#[cfg_attr(kani, kani::stub(alloc::fmt::format, vs::fake_format))]
pub fn k_c23_periodic_polys_cycle2() {
    reproduces_cycle(alloc::vec![any_tiny(), any_tiny()]);
    vreach!("C23.periodic.2.reach");
}

//# harness: fn=Air::get_periodic_column_polys (cycle length 4); label=bounded(F_17, trace length 8, cycle of 4 symbolic values); tier=quick; uses=reproduces_cycle,any_tiny; timeout=900
#[cfg_attr(kani, kani::proof)]
#[cfg_attr(kani, kani::unwind(12))]
#[cfg_attr(kani, kani::stub(alloc::fmt::format, vs::fake_format))]
pub fn k_c23_periodic_polys_cycle4() {
    reproduces_cycle(alloc::vec![any_tiny(), any_tiny(), any_tiny(), any_tiny()]);
    vreach!("C23.periodic.4.reach");
}

// (cycle length 8 = trace length with 8 symbolic values did not finish within 25 minutes of solver time; not claimed)
