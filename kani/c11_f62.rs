//# unit: c11_f62
//# crate: math
//# mount: math/src/field/f62/mod.rs
//# modpath: field::f62
//# props: C11
//! C11 (f62) — canonical encodings: every decoder accepts exactly the values below the modulus and
//! returns `new(value)`; encoders write the little-endian canonical integer `mont_to_int(inner)`;
//! integer conversions agree with the canonical value. That `as_int(new(v)) == v` for
//! every v < M is the Verus theorem C11.f62.as_int_new.identity (unit f62_core); SAT cannot decide
//! the constant multiplication inside `new`.
#![allow(unused_imports, dead_code)]
use utils::{vcheck, vreach, verif_support as vs, SliceReader};

use super::*;

fn any_elem() -> BaseElement {
    // every internal representation: lazily reduced Montgomery residues in [0, 2M)
    let a = vs::any_u64();
    vs::assume(a < 2 * M);
    BaseElement(a)
}
fn mont_to_int(x: u64) -> u64 {
    normalize(mul(x, 1))
}

/// Stands for the Montgomery product `mul` in the decoder / encoder harnesses: an arbitrary function
/// of its arguments (the contract of `mul` itself is the Verus unit f62_core), so that "the decoder
/// returns new(value)" and "the encoder writes normalize(mul(inner, 1))" are checked without asking
/// SAT to multiply.
fn stub_mul(a: u64, b: u64) -> u64 {
    (a.rotate_left(17) ^ b.rotate_left(5) ^ 0x5bd1_e995_9e37_79b9) >> 2
}

//# harness: fn=f62 TryFrom<u64>, TryFrom<u128>, TryFrom<usize>, TryFrom<[u8; 8]>; label=complete; tier=quick; replay=no
#[cfg_attr(kani, kani::stub(mul, stub_mul))]
#[cfg_attr(kani, kani::proof)]
#[cfg_attr(kani, kani::stub(alloc::fmt::format, vs::fake_format))]
pub fn k_c11_f62_try_from_ints() {
    let v = vs::any_u64();
    let r = BaseElement::try_from(v);
    vcheck!("C11.f62.try_from_u64.accept_iff_below_modulus", r.is_ok() == (v < M));
    if let Ok(e) = r {
        vcheck!("C11.f62.try_from_u64.is_new", e.0 == BaseElement::new(v).0);
    }
    let w = vs::any_u128();
    let r = BaseElement::try_from(w);
    vcheck!("C11.f62.try_from_u128.accept_iff_below_modulus", r.is_ok() == (w < M as u128));
    if let Ok(e) = r {
        vcheck!("C11.f62.try_from_u128.is_new", e.0 == BaseElement::new(w as u64).0);
    }
    let r = BaseElement::try_from(v.to_le_bytes());
    vcheck!("C11.f62.try_from_array.accept_iff_below_modulus", r.is_ok() == (v < M));
    if let Ok(e) = r {
        vcheck!("C11.f62.try_from_array.is_new", e.0 == BaseElement::new(v).0);
    }
    vreach!("C11.f62.ints.reach");
}

//# harness: fn=f62 TryFrom<&[u8]>, Randomizable::from_random_bytes, Deserializable::read_from; label=complete (every slice length 0..=17, every content); tier=quick; replay=no
#[cfg_attr(kani, kani::stub(mul, stub_mul))]
#[cfg_attr(kani, kani::proof)]
#[cfg_attr(kani, kani::unwind(10))]
#[cfg_attr(kani, kani::stub(alloc::fmt::format, vs::fake_format))]
pub fn k_c11_f62_try_from_bytes() {
    let bytes: [u8; 17] = vs::any_bytes();
    let len = vs::any_usize();
    vs::assume(len <= 17);
    let mut b8 = [0u8; 8];
    b8.copy_from_slice(&bytes[..8]);
    let v = u64::from_le_bytes(b8);
    let r = BaseElement::try_from(&bytes[..len]);
    vcheck!("C11.f62.try_from_slice.accept_iff_8_bytes_below_modulus", r.is_ok() == (len == 8 && v < M));
    if let Ok(e) = r {
        vcheck!("C11.f62.try_from_slice.is_new", e.0 == BaseElement::new(v).0);
    }
    let o = BaseElement::from_random_bytes(&bytes[..len]);
    vcheck!("C11.f62.from_random_bytes.some_iff_valid", o.is_some() == (len == 8 && v < M));
    let mut rd = SliceReader::new(&bytes[..len]);
    let r = BaseElement::read_from(&mut rd);
    vcheck!("C11.f62.read_from.accept_iff_below_modulus", r.is_ok() == (len >= 8 && v < M));
    if let Ok(e) = r {
        vcheck!("C11.f62.read_from.is_new", e.0 == BaseElement::new(v).0);
    }
    vreach!("C11.f62.bytes.reach");
}

//# harness: fn=f62 Serializable::write_into, as_int, From<BaseElement> for u64/u128, TryFrom<BaseElement> for u8/u16/u32/bool; label=complete; tier=quick; replay=no
#[cfg_attr(kani, kani::stub(mul, stub_mul))]
#[cfg_attr(kani, kani::proof)]
#[cfg_attr(kani, kani::unwind(10))]
#[cfg_attr(kani, kani::stub(alloc::fmt::format, vs::fake_format))]
pub fn k_c11_f62_encode_and_int_conversions() {
    let e = any_elem();
    let canon = mont_to_int(e.0);
    let mut w = vs::ArrayWriter::<8>::new();
    e.write_into(&mut w);
    vcheck!("C11.f62.write_into.le_canonical", w.pos == 8 && w.buf == canon.to_le_bytes());
    vcheck!("C11.f62.as_int.canonical_range", e.as_int() == canon && canon < M);
    vcheck!("C11.f62.into_u64_u128", u64::from(e) == canon && u128::from(e) == canon as u128);
    vreach!("C11.f62.encode.reach");
}

//# harness: fn=f62 From<u8/u16/u32/bool>; label=complete; tier=quick; replay=no
#[cfg_attr(kani, kani::stub(mul, stub_mul))]
#[cfg_attr(kani, kani::proof)]
pub fn k_c11_f62_from_small_ints() {
    let (a, b, c) = (vs::any_u8(), vs::any_u16(), vs::any_u32());
    vcheck!("C11.f62.from_u8.is_new", BaseElement::from(a).0 == BaseElement::new(a as u64).0);
    vcheck!("C11.f62.from_u16.is_new", BaseElement::from(b).0 == BaseElement::new(b as u64).0);
    vcheck!("C11.f62.from_u32.is_new", BaseElement::from(c).0 == BaseElement::new(c as u64).0);
}

//# harness: fn=f62 constants MODULUS, TWO_ADICITY, TWO_ADIC_ROOT_OF_UNITY, get_root_of_unity; label=closed(orders 2^39, 2^38, 2^1); tier=quick; timeout=900
#[cfg_attr(kani, kani::proof)]
#[cfg_attr(kani, kani::unwind(66))]
#[cfg_attr(kani, kani::stub(alloc::fmt::format, vs::fake_format))]
pub fn k_c11_f62_constants_quick() {
    let m = <BaseElement as StarkField>::MODULUS;
    let ta = <BaseElement as StarkField>::TWO_ADICITY;
    vcheck!("C11.f62.modulus.documented_value", m == 4611624995532046337 && M == m && <BaseElement as StarkField>::MODULUS_BITS == 62);
    vcheck!("C11.f62.modulus.two_adicity", ta == 39 && (m - 1) % (1u64 << ta) == 0 && ((m - 1) >> ta) & 1 == 1);
    let g = <BaseElement as StarkField>::TWO_ADIC_ROOT_OF_UNITY;
    vcheck!("C11.f62.root_of_unity.order_2_39", g.exp(1u64 << 39) == BaseElement::ONE && g.exp(1u64 << 38) != BaseElement::ONE);
    let r1 = BaseElement::get_root_of_unity(1);
    vcheck!("C11.f62.root_of_unity.order_2", r1.exp(2) == BaseElement::ONE && r1 != BaseElement::ONE);
}

//# harness: fn=f62 get_root_of_unity (every order 2^n, n = 1..=39); label=closed(exhaustive over orders); tier=thorough; timeout=3000
#[cfg_attr(kani, kani::proof)]
#[cfg_attr(kani, kani::unwind(66))]
#[cfg_attr(kani, kani::stub(alloc::fmt::format, vs::fake_format))]
pub fn k_c11_f62_constants_all_orders() {
    let mut n = 1u32;
    while n <= 39 {
        let r = BaseElement::get_root_of_unity(n);
        vcheck!("C11.f62.root_of_unity.exact_order_all_n", r.exp(1u64 << n) == BaseElement::ONE && r.exp(1u64 << (n - 1)) != BaseElement::ONE);
        n += 1;
    }
}
