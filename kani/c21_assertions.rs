//# unit: c21_assertions
//# crate: air
//# mount: air/src/air/assertions/mod.rs
//# modpath: air::assertions
//# props: C21
//! C21 — step sets, step counts, fit predicate and overlap detection of assertions, checked
//! against the documented arithmetic progressions by direct enumeration of steps (bounded trace
//! lengths). The unbounded versions of `overlaps_with` and `validate_trace_length` are the Verus
//! unit `assertions`; the harnesses here also serve as its counterexample finders.
#![allow(unused_imports, dead_code)]
use alloc::vec::Vec;

use math::fields::f128::BaseElement as F;
use utils::{vcheck, vreach, verif_support as vs};

use super::*;

/// an arbitrary constructor-valid assertion (kinds, column, first step, stride, value count all
/// symbolic) for traces of length n <= 32
fn any_assertion(n: usize) -> Assertion<F> {
    let column = vs::any_usize();
    vs::assume(column < 2);
    let kind = vs::any_u8();
    vs::assume(kind < 3);
    let first = vs::any_usize();
    let ls = vs::any_u32();
    vs::assume(ls >= 1 && ls <= 5);
    let stride = 1usize << ls;
    if kind == 0 {
        vs::assume(first < n);
        Assertion::single(column, first, F::ONE)
    } else if kind == 1 {
        vs::assume(first < stride && stride <= n);
        Assertion::periodic(column, first, stride, F::ONE)
    } else {
        vs::assume(first < stride && stride < n);
        let len = n / stride; // power of two >= 2
        let mut values = Vec::new();
        let mut i = 0;
        while i < len {
            values.push(F::new(i as u128 + 7));
            i += 1;
        }
        Assertion::sequence(column, first, stride, values)
    }
}

/// documented step set
fn covers(a: &Assertion<F>, n: usize, s: usize) -> bool {
    if a.stride == 0 {
        s == a.first_step
    } else {
        s < n && s >= a.first_step && (s - a.first_step) % a.stride == 0
    }
}

//# harness: fn=Assertion::overlaps_with; label=bounded(trace lengths 8, 16, 32; all assertion pairs); tier=quick; timeout=400; uses=any_assertion,covers
#[cfg_attr(kani, kani::proof)]
#[cfg_attr(kani, kani::unwind(34))]
#[cfg_attr(kani, kani::stub(alloc::fmt::format, vs::fake_format))]
pub fn k_c21_overlap_iff_common_step() {
    let ln = vs::any_u32();
    vs::assume(ln >= 3 && ln <= 5);
    let n = 1usize << ln;
    let a = any_assertion(n);
    let b = any_assertion(n);
    vs::assume(a.validate_trace_length(n).is_ok() && b.validate_trace_length(n).is_ok());
    let mut common = false;
    let mut s = 0;
    while s < 32 {
        if s < n && covers(&a, n, s) && covers(&b, n, s) {
            common = true;
        }
        s += 1;
    }
    vcheck!("C21.overlap.iff_common_cell.bounded", a.overlaps_with(&b) == (a.column == b.column && common));
    vreach!("C21.overlap.reach");
}

//# harness: fn=Assertion::apply, Assertion::get_num_steps; label=bounded(trace lengths 8 and 16; every assertion); tier=quick; timeout=400; uses=any_assertion,covers
#[cfg_attr(kani, kani::proof)]
#[cfg_attr(kani, kani::unwind(18))]
#[cfg_attr(kani, kani::stub(alloc::fmt::format, vs::fake_format))]
pub fn k_c21_apply_steps_exact() {
    let n = if vs::any_bool() { 8usize } else { 16 };
    let a = any_assertion(n);
    vs::assume(a.validate_trace_length(n).is_ok());
    // hit[s] = number of times apply() visited step s; steps must come in increasing order
    let mut hit = [0u8; 16];
    let mut last: Option<usize> = None;
    let mut ordered = true;
    let mut values_ok = true;
    let mut count = 0usize;
    a.apply(n, |step, value| {
        if step < 16 {
            hit[step] += 1;
        } else {
            ordered = false;
        }
        if let Some(l) = last {
            if step <= l {
                ordered = false;
            }
        }
        last = Some(step);
        let expect = if a.values.len() == 1 { a.values[0] } else { a.values[count] };
        if value != expect {
            values_ok = false;
        }
        count += 1;
    });
    let mut exact = true;
    let mut s = 0;
    while s < 16 {
        let want = if covers(&a, n, s) { 1 } else { 0 };
        if hit[s] != want {
            exact = false;
        }
        s += 1;
    }
    vcheck!("C21.apply.steps_exact", exact);
    vcheck!("C21.apply.increasing_order", ordered);
    vcheck!("C21.apply.values", values_ok);
    vcheck!("C21.get_num_steps.matches", a.get_num_steps(n) == count);
    vreach!("C21.apply.reach");
}

//# harness: fn=Assertion::validate_trace_length; label=complete in trace_length (every usize) for single and periodic assertions; sequences with 2, 4 or 8 values; tier=quick; timeout=300
#[cfg_attr(kani, kani::proof)]
#[cfg_attr(kani, kani::unwind(10))]
#[cfg_attr(kani, kani::stub(alloc::fmt::format, vs::fake_format))]
pub fn k_c21_validate_trace_length_iff_fits() {
    let column = vs::any_usize();
    let first = vs::any_usize();
    let ls = vs::any_u32();
    vs::assume(ls >= 1 && ls <= 40);
    let stride = 1usize << ls;
    let kind = vs::any_u8();
    vs::assume(kind < 3);
    let a = if kind == 0 {
        // steps >= 2^63 fit no trace; for them the error path evaluates (first + 1).next_power_of_two(),
        // whose std-internal overflow check exists in Kani's build of std but not in the shipped std
        // (natively it returns 0 and validation still answers Err): excluded, see DESIGN.md "false alarms"
        vs::assume(first < (1usize << 63));
        Assertion::single(column, first, F::ONE)
    } else if kind == 1 {
        vs::assume(first < stride);
        Assertion::periodic(column, first, stride, F::ONE)
    } else {
        vs::assume(first < stride);
        let ll = vs::any_u32();
        vs::assume(ll >= 1 && ll <= 3);
        let mut values = Vec::new();
        let mut i = 0;
        while i < (1usize << ll) {
            values.push(F::ONE);
            i += 1;
        }
        Assertion::sequence(column, first, stride, values)
    };
    let n = vs::any_usize();
    let fits = n.is_power_of_two()
        && match kind {
            0 => first < n,
            1 => stride <= n,
            _ => a.values.len() * stride == n,
        };
    vcheck!("C21.validate_trace_length.iff_fits.kani", a.validate_trace_length(n).is_ok() == fits);
    vreach!("C21.validate.reach");
}

//# harness: fn=usize::is_power_of_two (std, trusted spec used by the Verus unit); label=complete; tier=quick
#[cfg_attr(kani, kani::proof)]
#[cfg_attr(kani, kani::unwind(66))]
pub fn k_c21_is_power_of_two_spec() {
    let a = vs::any_usize();
    // the recursive definition used in the Verus unit: is_pow2(n) = n == 1 || (n > 1 && n % 2 == 0 && is_pow2(n / 2))
    let mut n = a;
    let mut r = n > 0;
    let mut i = 0;
    while i < 64 {
        if n > 1 {
            if n % 2 != 0 {
                r = false;
            }
            n /= 2;
        }
        i += 1;
    }
    vcheck!("C21.std.is_power_of_two.spec", a.is_power_of_two() == r);
}
