//# unit: c05_fri
//# crate: fri
//# mount: fri/src/proof.rs
//# modpath: proof
//# props: C05 C07
//! C05 (FRI proof container) — `FriProof::read_from` followed by `num_partitions()` never panics whatever the
//! partition-exponent byte is: exponents the platform cannot represent are rejected by the decoder (repaired
//! defect F11c: 2^byte was computed for any byte). Zero layers and an empty remainder keep the instance
//! loop-free, so the obligation is complete in the exponent byte.
#![allow(unused_imports, dead_code)]
use utils::{vcheck, vreach, verif_support as vs, SliceReader};

use alloc::vec::Vec;

use super::*;

//# harness: fn=FriProof::read_from, FriProof::num_partitions; label=complete in the partition-exponent byte (zero layers, empty remainder); tier=quick; props=C05; timeout=600
#[cfg_attr(kani, kani::proof)]
#[cfg_attr(kani, kani::unwind(10))]
#[cfg_attr(kani, kani::stub(alloc::fmt::format, vs::fake_format))]
pub fn k_c05_fri_num_partitions() {
    let e = vs::any_u8();
    // num_layers = 0, remainder length = 0 (u16 little endian), partition exponent
    let bytes = [0u8, 0, 0, e];
    let mut r = SliceReader::new(&bytes);
    match FriProof::read_from(&mut r) {
        Ok(p) => {
            vcheck!("C05.fri.num_partitions", (e as u32) < usize::BITS && p.num_partitions() == 1usize << e);
        },
        Err(_) => {
            vcheck!("C05.fri.num_partitions.rejected_only_when_unrepresentable", (e as u32) >= usize::BITS);
        },
    }
    vreach!("C05.fri.num_partitions.reach");
}

// C07: a FRI proof with no layers (remainder of 2 symbolic f128 elements, every admissible partition count)
// survives the round trip with no bytes left over
//# harness: fn=FriProof::new, write_into, read_from (no layers); label=bounded(zero layers, remainder of 2 elements of the 128-bit field, every partition count 2^0..2^63); tier=quick; props=C07; timeout=900
#[cfg_attr(kani, kani::proof)]
#[cfg_attr(kani, kani::unwind(40))]
#[cfg_attr(kani, kani::stub(alloc::fmt::format, vs::fake_format))]
pub fn k_c07_fri_proof_roundtrip() {
    use math::fields::f128::BaseElement as F128;
    let (a, b) = (vs::any_u128(), vs::any_u128());
    let e = vs::any_u32();
    vs::assume(e < 64);
    let p = FriProof::new::<F128>(Vec::new(), alloc::vec![F128::new(a), F128::new(b)], 1usize << e);
    let mut w = vs::ArrayWriter::<36>::new();
    p.write_into(&mut w);
    vcheck!("C07.fri_proof.encoded_len", w.pos == 36);
    let mut r = SliceReader::new(&w.buf);
    let back = FriProof::read_from(&mut r);
    vcheck!("C07.fri_proof.roundtrip", back == Ok(p));
    vcheck!("C07.fri_proof.consumed", !r.has_more_bytes());
    vreach!("C07.fri_proof.reach");
}
