"""Engine V: Verus on items extracted mechanically from /repo's current sources.

A unit is a Python file /verif/verus/<name>.py defining UNIT = {
    "name", "props", "prelude" (Verus text: spec fns, lemmas, assume_specifications),
    "items": [ item, ... ]   in output order,
    "epilogue" (Verus text: theorems stated over the contracts), "theorems": {fn name: obligation id},
}
item kinds:
  {"kind": "const",  "file", "name", "pub": True}
  {"kind": "struct", "file", "name", "pubfields": True, "derive_copy": True}
  {"kind": "fn",     "file", "name", "ret": "r", "spec": "...", "ghost": [...], "ob": "C10....", "fnlabel": "..."}
  {"kind": "impl",   "file", "header": "impl BaseElement", "out_header": optional replacement text,
                     "methods": [ {fn item fields} ... ], "extra": "verus text placed inside the impl"}
  {"kind": "text", "text": "..."}   verification-only glue between items
ghost entry: {"at": "start", "text": ..}  right after the opening brace of the body
             {"at": "before"|"after", "anchor": "let (r, c) =", "occ": 1, "text": "proof { .. }"}
             (anchors name statement prefixes / bound variables, never the computing expression, so an
              edited expression keeps its anchor and fails the obligation instead of losing it)
             {"at": "loop_invariant", "anchor": "for i in", "occ": 1, "text": "invariant ..., decreases ..."}

What extraction changes (and nothing else; enforced by the token self-check):
  * doc comments, comments and outer attributes of the extracted items are dropped;
  * `pub` is added to consts / tuple fields named in specs;
  * the return type is named (`-> T` becomes `-> (r: T)`);
  * spec clauses are inserted between signature and body, ghost text at anchors, loop
    invariants after loop headers.
"""
import hashlib
import importlib.util
import json
import os
import re
import shutil
import tempfile
import time

from .common import REPO, Undecided, VERIF, read_json, run

VDIR = os.path.join(VERIF, "verus")
MARK_IN, MARK_OUT = "/*+V*/", "/*-V*/"


class VerusResult:
    def __init__(self):
        self.cmd = ""
        self.trusted = []
        self.assumptions = []
        self.report = []
        self.obligations = []
        self.undecided = []


# ------------------------------------------------------------------------------------------------
# a small Rust tokenizer (enough to match braces and compare token streams)

TOKEN_RE = re.compile(r"""
    (?P<lc>//[^\n]*)
  | (?P<bc>/\*)
  | (?P<rs>b?r(?P<h>\#*)")
  | (?P<s>b?"(?:[^"\\]|\\.)*")
  | (?P<ch>b?'(?:[^'\\\n]|\\(?:[^u\n]|u\{[0-9a-fA-F_]+\}))')
  | (?P<lt>'[A-Za-z_][A-Za-z0-9_]*)
  | (?P<id>[A-Za-z_][A-Za-z0-9_]*)
  | (?P<num>[0-9][A-Za-z0-9_]*(?:\.[0-9][A-Za-z0-9_]*)?)
  | (?P<ws>\s+)
  | (?P<p>.)
""", re.X | re.S)


def tokenize(src):
    """Returns [(kind, text, start, end)] without whitespace; comments kept with kind 'c'."""
    out = []
    i = 0
    n = len(src)
    while i < n:
        m = TOKEN_RE.match(src, i)
        k = m.lastgroup
        if k == "bc":
            depth = 1
            j = m.end()
            while j < n and depth:
                if src.startswith("/*", j):
                    depth += 1
                    j += 2
                elif src.startswith("*/", j):
                    depth -= 1
                    j += 2
                else:
                    j += 1
            out.append(("c", src[i:j], i, j))
            i = j
            continue
        if k == "rs":
            close = '"' + m.group("h")
            j = src.index(close, m.end()) + len(close)
            out.append(("s", src[i:j], i, j))
            i = j
            continue
        if k == "h":
            k = "rs"
        if k == "ws":
            i = m.end()
            continue
        if k == "lc":
            out.append(("c", m.group(0), i, m.end()))
        else:
            out.append((k, m.group(0), i, m.end()))
        i = m.end()
    return out


def code_tokens(src):
    return [t for t in tokenize(src) if t[0] != "c"]


def _match_brace(toks, i):
    """toks[i] is '{' -> index of matching '}'."""
    depth = 0
    for j in range(i, len(toks)):
        t = toks[j][1]
        if t == "{":
            depth += 1
        elif t == "}":
            depth -= 1
            if depth == 0:
                return j
    raise Undecided("unbalanced braces during extraction")


def _skip_attr_back(toks, i):
    """toks[i-1] is ']' closing an attribute -> index of the '#' token starting it, else None."""
    depth = 0
    j = i - 1
    while j >= 0:
        t = toks[j][1]
        if t == "]":
            depth += 1
        elif t == "[":
            depth -= 1
            if depth == 0:
                if j >= 1 and toks[j - 1][1] == "#":
                    return j - 1
                if j >= 2 and toks[j - 1][1] == "!" and toks[j - 2][1] == "#":
                    return j - 2
                return None
        j -= 1
    return None


def _item_start(toks, i):
    """Walk back from keyword token i over qualifiers (pub, const, unsafe, pub(crate), ...)."""
    j = i
    while j > 0:
        t = toks[j - 1][1]
        if t in ("pub", "const", "unsafe", "async", "extern", "default"):
            j -= 1
        elif t == ")" and j >= 4 and toks[j - 4][1] == "pub":  # pub(crate)
            j -= 4
        else:
            break
    return j


def find_items(src, toks, keyword, name, lo=0, hi=None, depth_base=0):
    """Token index ranges [(start_tok, end_tok)] of items `keyword name` at brace depth depth_base
    within toks[lo:hi]."""
    hi = len(toks) if hi is None else hi
    res = []
    depth = 0
    i = lo
    while i < hi:
        t = toks[i][1]
        if t == "{":
            depth += 1
        elif t == "}":
            depth -= 1
        elif depth == depth_base and t == keyword and i + 1 < hi and toks[i + 1][1] == name \
                and toks[i][0] == "id":
            s = _item_start(toks, i)
            # end: first ';' or '{...}' at this depth
            j = i
            pd = 0
            while j < hi:
                tj = toks[j][1]
                if tj in ("(", "[", "<") and tj != "<":
                    pd += 1
                elif tj in (")", "]"):
                    pd -= 1
                if tj == ";" and pd == 0:
                    res.append((s, j))
                    break
                if tj == "{" and pd == 0:
                    e = _match_brace(toks, j)
                    res.append((s, e))
                    break
                j += 1
            i = res[-1][1]
        i += 1
    return res


def find_impl(src, toks, header):
    """Locate `impl ... {` (or `trait ... {`) whose header text (whitespace-normalised) equals `header`;
    a header ending in `...` matches by prefix (used for trait headers with long bound lists)."""
    want = " ".join(header.split())
    kw = "trait" if want.startswith("trait ") else "impl"
    depth = 0
    res = []
    for i, t in enumerate(toks):
        if t[1] == "{":
            depth += 1
        elif t[1] == "}":
            depth -= 1
        elif depth == 0 and t[1] == kw and t[0] == "id":
            j = i
            while toks[j][1] != "{":
                j += 1
            got = " ".join(src[toks[i][2]:toks[j][2]].split())
            if got == want or (want.endswith("...") and got.startswith(want[:-3].rstrip())):
                res.append((i, j, _match_brace(toks, j)))
    return res


# ------------------------------------------------------------------------------------------------
# extraction + splicing


class Extractor:
    def __init__(self, root=REPO):
        self.root = root
        self.cache = {}

    def load(self, file):
        if file not in self.cache:
            p = os.path.join(self.root, file)
            if not os.path.exists(p):
                raise Undecided(f"anchor-lost: {file} missing")
            src = open(p).read()
            self.cache[file] = (src, code_tokens(src))
        return self.cache[file]

    def text_of(self, file, rng):
        src, toks = self.load(file)
        return src[toks[rng[0]][2]:toks[rng[1]][3]]

    def item(self, file, keyword, name):
        src, toks = self.load(file)
        r = find_items(src, toks, keyword, name)
        if len(r) != 1:
            raise Undecided(f"anchor-lost: {file}: `{keyword} {name}` found {len(r)} times at top level")
        return self.text_of(file, r[0])

    def method(self, file, header, name, occ=1, keyword="fn"):
        src, toks = self.load(file)
        impls = find_impl(src, toks, header)
        if len(impls) < 1:
            raise Undecided(f"anchor-lost: {file}: `{header}` not found")
        found = []
        for (i, j, e) in impls:
            found += find_items(src, toks, keyword, name, lo=j + 1, hi=e, depth_base=0)
        if len(found) != 1:
            raise Undecided(f"anchor-lost: {file}: `{header}`::{name} found {len(found)} times")
        return self.text_of(file, found[0])


def strip_comments(text):
    toks = tokenize(text)
    out = []
    pos = 0
    for k, t, s, e in toks:
        if k == "c":
            out.append(text[pos:s])
            pos = e
    out.append(text[pos:])
    # drop lines that became empty
    return "\n".join(l for l in "".join(out).splitlines() if l.strip() != "" or True)


def _stmt_end(text, start):
    """index just after the ';' terminating the statement starting at/after `start`."""
    depth = 0
    toks = [t for t in tokenize(text[start:])]
    for k, t, s, e in toks:
        if k == "c":
            continue
        if t in "([{":
            depth += 1
        elif t in ")]}":
            depth -= 1
        elif t == ";" and depth == 0:
            return start + e
    raise Undecided("statement end not found after anchor")


LOST = {}  # fn label -> [lost anchors] for the unit being built
FINGERPRINTS = {}  # fn label -> hash of the extracted function's code tokens (unit being built)


def splice_fn(text, spec, fname):
    """Apply return naming, spec clauses and ghost insertions to one extracted fn item. A ghost block
    whose anchor statement no longer exists is skipped and recorded: the function is then checked
    without that hint (discharged if the solver manages anyway, otherwise undecided - never refuted)."""
    text = strip_comments(text)
    toks = code_tokens(text)
    # signature end = first '{' at paren depth 0
    pd = 0
    body_open = None
    for k, t, s, e in toks:
        if t in "([":
            pd += 1
        elif t in ")]":
            pd -= 1
        elif t == "{" and pd == 0:
            body_open = s
            break
    if body_open is None:
        raise Undecided(f"{fname}: no body")
    sig, body = text[:body_open], text[body_open:]
    ret = spec.get("ret")
    if ret:
        m = re.search(r"->\s*(.+?)\s*(where\b.*)?$", sig, re.S)
        if not m:
            raise Undecided(f"anchor-lost: {fname}: no return type to name")
        sig = sig[:m.start()] + f"-> {MARK_IN}({ret}: {MARK_OUT}{m.group(1)}{MARK_IN}){MARK_OUT} " + (m.group(2) or "")
    if spec.get("spec"):
        sig = sig.rstrip() + f"\n{MARK_IN}\n{spec['spec'].strip()}\n{MARK_OUT}\n"
    for g in spec.get("ghost", []):
        if g["at"] == "start":
            body = "{" + f"\n{MARK_IN}\n{g['text'].strip()}\n{MARK_OUT}\n" + body[1:]
            continue
        anchor, occ = g["anchor"], g.get("occ", 1)
        idx = -1
        lost = False
        for _ in range(occ):
            idx = body.find(anchor, idx + 1)
            if idx < 0:
                lost = True
                break
        if lost:
            LOST.setdefault(fname, []).append(f"`{anchor}` (occurrence {occ})")
            continue
        ins = f"{MARK_IN}\n{g['text'].strip()}\n{MARK_OUT}\n"
        if g["at"] == "before":
            ls = body.rfind("\n", 0, idx) + 1
            body = body[:ls] + ins + body[ls:]
        elif g["at"] == "after":
            e = _stmt_end(body, idx)
            body = body[:e] + "\n" + ins + body[e:]
        elif g["at"] == "loop_invariant":
            # after the loop header, before its '{'
            j = idx
            pd = 0
            while True:
                c = body[j]
                if c in "([":
                    pd += 1
                elif c in ")]":
                    pd -= 1
                elif c == "{" and pd == 0:
                    break
                j += 1
            body = body[:j] + f"\n{MARK_IN}\n{g['text'].strip()}\n{MARK_OUT}\n" + body[j:]
        else:
            raise Undecided(f"bad ghost kind {g['at']}")
    return sig + body


def unsplice(text):
    """Remove everything the splicer inserted (for the token self-check)."""
    out = []
    i = 0
    while True:
        j = text.find(MARK_IN, i)
        if j < 0:
            out.append(text[i:])
            break
        out.append(text[i:j])
        k = text.find(MARK_OUT, j)
        if k < 0:
            raise Undecided("unterminated splice marker")
        i = k + len(MARK_OUT)
    return "".join(out)


def same_tokens(a, b):
    ta = [t[1] for t in code_tokens(a) if t[1] != "pub"]
    tb = [t[1] for t in code_tokens(b) if t[1] != "pub"]
    return ta == tb, ta, tb


def load_unit(name):
    p = os.path.join(VDIR, name + ".py")
    spec = importlib.util.spec_from_file_location("verus_unit_" + name, p)
    m = importlib.util.module_from_spec(spec)
    spec.loader.exec_module(m)
    return m.UNIT


def build_file(U, root=REPO):
    """Returns (file text, ranges [(first_line, last_line, fn label, obligation id)], report)."""
    ex = Extractor(root)
    LOST.clear()
    FINGERPRINTS.clear()
    parts = ["use vstd::prelude::*;\nverus! {\n", U.get("prelude", "")]
    regions = []  # (text_index, text, label, ob)
    report = []

    def emit_fn(orig, spec, label):
        # fingerprint of the function's code tokens (comments and layout ignored): compared with the committed
        # baseline to tell "this function was edited" from "the solver wandered" when a proof runs out of resources
        FINGERPRINTS[label] = hashlib.sha256(" ".join(x[1] for x in code_tokens(strip_comments(orig))).encode()).hexdigest()[:16]
        sp = splice_fn(orig, spec, label)
        ok, ta, tb = same_tokens(unsplice(sp), strip_comments(orig))
        if not ok:
            raise Undecided(f"extraction self-check failed for {label}")
        return sp

    for it in U["items"]:
        k = it["kind"]
        if k == "text":
            parts.append(it["text"])
        elif k == "const":
            t = strip_comments(ex.item(it["file"], "const", it["name"]))
            if it.get("pub") and not t.startswith("pub"):
                t = "pub " + t
            parts.append(t + "\n")
            report.append({"kind": "extract", "file": it["file"], "item": "const " + it["name"]})
        elif k == "struct":
            t = strip_comments(ex.item(it["file"], "struct", it["name"]))
            if it.get("pubfields"):
                t2 = re.sub(r"\((\s*)(?!pub)", r"(\1pub ", t, count=1)
                t = t2
            for a, b in it.get("replace", []):
                t = t.replace(a, b)
            if not t.startswith("pub"):
                t = "pub " + t
            parts.append(it.get("attrs", "") + t + "\n" + it.get("after", ""))
            report.append({"kind": "extract", "file": it["file"], "item": "struct " + it["name"],
                           "dropped": "derive/cfg_attr attributes"})
        elif k == "fn":
            orig = ex.item(it["file"], "fn", it["name"])
            label = it.get("fnlabel", it["name"])
            sp = emit_fn(orig, it, label)
            regions.append((len(parts), label, it.get("ob")))
            parts.append(it.get("attrs", "") + sp + "\n")
            report.append({"kind": "extract", "file": it["file"], "item": "fn " + it["name"],
                           "inserted": {"spec": bool(it.get("spec")), "ghost_blocks": len(it.get("ghost", []))}})
        elif k == "impl":
            hdr = it.get("out_header", it["header"])
            parts.append(hdr + " {\n" + it.get("extra", ""))
            for c in it.get("consts", []):
                ct = strip_comments(ex.method(it["file"], it["header"], c["name"], keyword="const"))
                parts.append(c.get("attrs", "") + ct + "\n")
                report.append({"kind": "extract", "file": it["file"], "item": f"{it['header']}::const {c['name']}",
                               "note": c.get("note", "")})
            for mth in it["methods"]:
                # a method may come from another container (a trait's default method instantiated at this impl)
                src_file, src_hdr = mth.get("src_file", it["file"]), mth.get("src_header", it["header"])
                orig = ex.method(src_file, src_hdr, mth["name"])
                label = mth.get("fnlabel", f"{it['header']}::{mth['name']}")
                sp = emit_fn(orig, mth, label)
                if mth.get("pub") and not sp.lstrip().startswith("pub"):
                    sp = "pub " + sp
                regions.append((len(parts), label, mth.get("ob")))
                parts.append(mth.get("attrs", "") + sp + "\n")
                report.append({"kind": "extract", "file": src_file, "item": f"{src_hdr}::{mth['name']}" + (
                                   f" (default method, placed in `{it['header']}`)" if "src_header" in mth else ""),
                               "inserted": {"spec": bool(mth.get("spec")), "ghost_blocks": len(mth.get("ghost", []))}})
            parts.append("}\n")
        else:
            raise Undecided(f"unknown item kind {k}")
    epi_index = len(parts)
    parts.append(U.get("epilogue", ""))
    parts.append("\nproof fn verif_canary_must_fail() { assert(false); }\n")
    parts.append("} // verus!\nfn main() {}\n")
    # line ranges
    ranges = []
    line = 1
    starts = []
    for p in parts:
        starts.append(line)
        line += p.count("\n")
    for idx, label, ob in regions:
        # (inclusive line range of this part: the next part starts on line starts[idx] + count)
        ranges.append((starts[idx], starts[idx] + max(1, parts[idx].count("\n")) - 1, label, ob))
    text = "".join(parts)
    # theorems / lemmas in prelude+epilogue: locate by name
    for fname, ob in U.get("theorems", {}).items():
        m = re.search(r"^\s*(?:pub )?(?:proof )?fn " + re.escape(fname) + r"\b", text, re.M)
        if not m:
            raise Undecided(f"theorem {fname} not found in unit text")
        l0 = text.count("\n", 0, m.start()) + 1
        # end: matching brace
        b = text.index("{", _sig_end(text, m.end()))
        depth = 0
        j = b
        while True:
            if text[j] == "{":
                depth += 1
            elif text[j] == "}":
                depth -= 1
                if depth == 0:
                    break
            j += 1
        l1 = text.count("\n", 0, j) + 1
        ranges.append((l0, l1, fname, ob))
    return text, ranges, report


def _sig_end(text, i):
    """index of the '{' opening the body: skip requires/ensures clauses (which contain no braces
    at depth 0 except closures/if-expressions inside parentheses)."""
    pd = 0
    j = i
    while j < len(text):
        c = text[j]
        if c in "([":
            pd += 1
        elif c in ")]":
            pd -= 1
        elif c == "{" and pd == 0:
            # an `if c { .. } else { .. }` inside a clause is at pd>0 by convention (parenthesised)
            return j
        j += 1
    return j


BASELINE = read_json(os.path.join(VERIF, "verus", "baseline_fingerprints.json"), {}) or {}


def run_unit(name, pid, root=REPO, keep=None):
    U = load_unit(name)
    R = VerusResult()
    t0 = time.time()
    text, ranges, report = build_file(U, root)
    R.report = report
    d = tempfile.mkdtemp(prefix=f"wfv-verus-{name}-", dir=os.environ.get("VERIF_SCRATCH_ROOT", "/var/tmp"))
    try:
        f = os.path.join(d, f"{name}.rs")
        open(f, "w").write(text)
        if keep:
            shutil.copy(f, keep)
        rl = str(U.get("rlimit", 30))
        cmd = ["verus", f, "--error-format=json", "--multiple-errors", "8", "--rlimit", rl]
        R.cmd = f"verus <extracted>/{name}.rs --rlimit {rl}"
        rc, out, secs, to = run(cmd, cwd=d, timeout=U.get("timeout", 600))
    finally:
        shutil.rmtree(d, ignore_errors=True)
    if to:
        R.undecided.append("verus timeout")
    errs = []
    summary = None
    for l in out.splitlines():
        m = re.match(r"verification results:: (\d+) verified, (\d+) errors", l)
        if m:
            summary = (int(m.group(1)), int(m.group(2)))
        if l.startswith("{") and '"$message_type"' in l:
            try:
                dj = json.loads(l)
            except Exception:
                continue
            if dj.get("level") == "error" and dj.get("spans"):
                prim = [s for s in dj["spans"] if s.get("is_primary")] or dj["spans"]
                lines = sorted({s["line_start"] for s in dj["spans"]})
                errs.append((dj["message"], prim[0]["line_start"], lines, dj.get("rendered", "")))
            elif dj.get("level") == "error" and "aborting" not in dj.get("message", ""):
                errs.append((dj["message"], 0, [], dj.get("rendered", "")))
    canary_failed = False
    per = {}
    hard = []
    for msg, line, lines, rendered in errs:
        hit = None
        for (l0, l1, label, ob) in ranges:
            if any(l0 <= x <= l1 for x in [line] + lines):
                hit = (label, ob)
                break
        if "verif_canary_must_fail" in rendered or (hit is None and "assert(false)" in rendered):
            canary_failed = True
            continue
        if hit is None:
            hard.append(f"{msg} (line {line}): {rendered[:400]}")
        else:
            per.setdefault(hit, []).append((msg, rendered))
    if summary is None and not to:
        # compile-level rejection (unsupported construct, type error): undecided, not an alarm
        R.undecided.append("verus rejected the extracted unit: " + "; ".join(e[0] for e in errs)[:800] +
                           " | " + out[-600:])
    elif not canary_failed and not to:
        R.undecided.append("vacuity canary assert(false) was not reported as failing")
    for hmsg in hard:
        R.undecided.append("error outside any contract region: " + hmsg)
    secs_each = round((time.time() - t0) / max(1, len(ranges)), 2)
    for (l0, l1, label, ob) in ranges:
        if ob is None:
            continue
        if not ob.startswith(pid + ".") and "," not in ob:
            pass
        o = {"id": ob, "fn": label, "seconds": secs_each}
        e = per.get((label, ob))
        if summary is None or to:
            o["outcome"] = "undecided"
        elif e and label in LOST:
            o["outcome"] = "undecided"
            o["detail"] = "anchor-lost: proof hints could not be placed at " + ", ".join(LOST[label])
            R.undecided.append(f"{label}: anchor-lost {', '.join(LOST[label])}")
        elif e:
            # Z3's resource limit is a deterministic count (not wall time): an obligation that is
            # discharged on the unchanged tree and exhausts the limit after a change to the function
            # under contract is an obligation that no longer holds up - reported like any failed
            # obligation (no counterexample available), with the solver's reason attached
            o["outcome"] = "refuted"
            o["detail"] = " | ".join(r.strip()[:700] for _, r in e[:3])
            only_rlimit = all("rlimit" in m.lower() or "resource limit" in m.lower() for m, _ in e)
            if any("rlimit" in m.lower() or "resource limit" in m.lower() for m, _ in e):
                o["detail"] = "solver resource limit exhausted (obligation is discharged on the unchanged tree) | " + o["detail"]
            if only_rlimit and BASELINE.get(name, {}).get(label) == FINGERPRINTS.get(label):
                # the function under contract is token-for-token the one the proof was developed against and the
                # only complaint is the resource limit: solver instability (another item of the unit changed the
                # search), not evidence against this function - undecided, never an alarm
                o["outcome"] = "undecided"
                o["detail"] = "solver resource limit exhausted on a function whose text equals the committed baseline (instability) | " + o["detail"]
                R.undecided.append(f"{label}: resource limit on unchanged function text")
        else:
            o["outcome"] = "discharged"
        R.obligations.append(o)
    # trusted base: mechanical scan
    for m in re.finditer(r"assume_specification\s*\[\s*([^\]]+)\]", text):
        R.trusted.append(f"verus assume_specification[{m.group(1).strip()}] (unit {name})")
    for m in re.finditer(r"#\[verifier::external_body\]\s*(?:pub )?(?:proof )?(?:fn|struct) (\w+)", text):
        R.trusted.append(f"verus external_body {m.group(1)} (unit {name})")
    if re.search(r"\badmit\(\)|\bassume\(", text):
        R.trusted.append(f"verus unit {name} contains assume/admit (see unit file)")
    R.assumptions = list(U.get("assumptions", []))
    R.summary = summary
    return R
