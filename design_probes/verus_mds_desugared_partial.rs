use vstd::prelude::*;
verus! {
const MDS_FREQ_BLOCK_ONE: [i64; 3] = [16, 8, 16];
const MDS_FREQ_BLOCK_TWO: [(i64, i64); 3] = [(-1, 2), (-1, 1), (4, 8)];
const MDS_FREQ_BLOCK_THREE: [i64; 3] = [-8, 1, 1];

fn fft2_real(x: [u64; 2]) -> (r: [i64; 2])
    requires x[0] < 0x4_0000_0000, x[1] < 0x4_0000_0000,
    ensures r[0] == x[0] + x[1], r[1] == x[0] - x[1],
{
    [(x[0] as i64 + x[1] as i64), (x[0] as i64 - x[1] as i64)]
}

fn ifft2_real_unreduced(y: [i64; 2]) -> (r: [u64; 2])
    requires -0x1000_0000_0000 < y[0] < 0x1000_0000_0000, -0x1000_0000_0000 < y[1] < 0x1000_0000_0000, y[0] + y[1] >= 0, y[0] - y[1] >= 0,
    ensures r[0] == y[0] + y[1], r[1] == y[0] - y[1],
{
    [(y[0] + y[1]) as u64, (y[0] - y[1]) as u64]
}

fn fft4_real(x: [u64; 4]) -> (r: (i64, (i64, i64), i64))
    requires x[0] < 0x1_0000_0000, x[1] < 0x1_0000_0000, x[2] < 0x1_0000_0000, x[3] < 0x1_0000_0000,
    ensures r.0 == x[0] + x[1] + x[2] + x[3], r.1.0 == x[0] - x[2], r.1.1 == -(x[1] - x[3]), r.2 == x[0] + x[2] - x[1] - x[3],
{
    let tmp1 = fft2_real([x[0], x[2]]);
    let z0 = tmp1[0];
    let z2 = tmp1[1];
    let tmp2 = fft2_real([x[1], x[3]]);
    let z1 = tmp2[0];
    let z3 = tmp2[1];
    let y0 = z0 + z1;
    let y1 = (z2, -z3);
    let y2 = z0 - z1;
    (y0, y1, y2)
}

fn ifft4_real_unreduced(y: (i64, (i64, i64), i64)) -> [u64; 4] {
    let z0 = y.0 + y.2;
    let z1 = y.0 - y.2;
    let z2 = y.1 .0;
    let z3 = -y.1 .1;

    let tmp3 = ifft2_real_unreduced([z0, z2]);
    let x0 = tmp3[0];
    let x2 = tmp3[1];
    let tmp4 = ifft2_real_unreduced([z1, z3]);
    let x1 = tmp4[0];
    let x3 = tmp4[1];

    [x0, x1, x2, x3]
}

fn block1(x: [i64; 3], y: [i64; 3]) -> [i64; 3] {
    let tmp5 = x;
    let x0 = tmp5[0];
    let x1 = tmp5[1];
    let x2 = tmp5[2];
    let tmp6 = y;
    let y0 = tmp6[0];
    let y1 = tmp6[1];
    let y2 = tmp6[2];
    let z0 = x0 * y0 + x1 * y2 + x2 * y1;
    let z1 = x0 * y1 + x1 * y0 + x2 * y2;
    let z2 = x0 * y2 + x1 * y1 + x2 * y0;

    [z0, z1, z2]
}

fn block2(x: [(i64, i64); 3], y: [(i64, i64); 3]) -> [(i64, i64); 3] {
    let tmp7 = x;
    let (x0r, x0i) = tmp7[0];
    let (x1r, x1i) = tmp7[1];
    let (x2r, x2i) = tmp7[2];
    let tmp8 = y;
    let (y0r, y0i) = tmp8[0];
    let (y1r, y1i) = tmp8[1];
    let (y2r, y2i) = tmp8[2];
    let x0s = x0r + x0i;
    let x1s = x1r + x1i;
    let x2s = x2r + x2i;
    let y0s = y0r + y0i;
    let y1s = y1r + y1i;
    let y2s = y2r + y2i;

    // Compute x0​y0 ​− ix1​y2​ − ix2​y1​ using Karatsuba for complex numbers multiplication
    let m0 = (x0r * y0r, x0i * y0i);
    let m1 = (x1r * y2r, x1i * y2i);
    let m2 = (x2r * y1r, x2i * y1i);
    let z0r = (m0.0 - m0.1) + (x1s * y2s - m1.0 - m1.1) + (x2s * y1s - m2.0 - m2.1);
    let z0i = (x0s * y0s - m0.0 - m0.1) + (-m1.0 + m1.1) + (-m2.0 + m2.1);
    let z0 = (z0r, z0i);

    // Compute x0​y1​ + x1​y0​ − ix2​y2 using Karatsuba for complex numbers multiplication
    let m0 = (x0r * y1r, x0i * y1i);
    let m1 = (x1r * y0r, x1i * y0i);
    let m2 = (x2r * y2r, x2i * y2i);
    let z1r = (m0.0 - m0.1) + (m1.0 - m1.1) + (x2s * y2s - m2.0 - m2.1);
    let z1i = (x0s * y1s - m0.0 - m0.1) + (x1s * y0s - m1.0 - m1.1) + (-m2.0 + m2.1);
    let z1 = (z1r, z1i);

    // Compute x0​y2​ + x1​y1 ​+ x2​y0​ using Karatsuba for complex numbers multiplication
    let m0 = (x0r * y2r, x0i * y2i);
    let m1 = (x1r * y1r, x1i * y1i);
    let m2 = (x2r * y0r, x2i * y0i);
    let z2r = (m0.0 - m0.1) + (m1.0 - m1.1) + (m2.0 - m2.1);
    let z2i = (x0s * y2s - m0.0 - m0.1) + (x1s * y1s - m1.0 - m1.1) + (x2s * y0s - m2.0 - m2.1);
    let z2 = (z2r, z2i);

    [z0, z1, z2]
}

fn block3(x: [i64; 3], y: [i64; 3]) -> [i64; 3] {
    let tmp9 = x;
    let x0 = tmp9[0];
    let x1 = tmp9[1];
    let x2 = tmp9[2];
    let tmp10 = y;
    let y0 = tmp10[0];
    let y1 = tmp10[1];
    let y2 = tmp10[2];
    let z0 = x0 * y0 - x1 * y2 - x2 * y1;
    let z1 = x0 * y1 + x1 * y0 - x2 * y2;
    let z2 = x0 * y2 + x1 * y1 + x2 * y0;

    [z0, z1, z2]
}

fn mds_multiply_freq(state: [u64; 12]) -> [u64; 12] {
    let tmp11 = state;
    let s0 = tmp11[0];
    let s1 = tmp11[1];
    let s2 = tmp11[2];
    let s3 = tmp11[3];
    let s4 = tmp11[4];
    let s5 = tmp11[5];
    let s6 = tmp11[6];
    let s7 = tmp11[7];
    let s8 = tmp11[8];
    let s9 = tmp11[9];
    let s10 = tmp11[10];
    let s11 = tmp11[11];

    let (u0, u1, u2) = fft4_real([s0, s3, s6, s9]);
    let (u4, u5, u6) = fft4_real([s1, s4, s7, s10]);
    let (u8, u9, u10) = fft4_real([s2, s5, s8, s11]);

    // This where the multiplication in frequency domain is done. More precisely, and with
    // the appropriate permutations in between, the sequence of
    // 3-point FFTs --> multiplication by twiddle factors --> Hadamard multiplication -->
    // 3 point iFFTs --> multiplication by (inverse) twiddle factors
    // is "squashed" into one step composed of the functions "block1", "block2" and "block3".
    // The expressions in the aforementioned functions are the result of explicit computations
    // combined with the Karatsuba trick for the multiplication of Complex numbers.

    let tmp12 = block1([u0, u4, u8], MDS_FREQ_BLOCK_ONE);
    let v0 = tmp12[0];
    let v4 = tmp12[1];
    let v8 = tmp12[2];
    let tmp13 = block2([u1, u5, u9], MDS_FREQ_BLOCK_TWO);
    let v1 = tmp13[0];
    let v5 = tmp13[1];
    let v9 = tmp13[2];
    let tmp14 = block3([u2, u6, u10], MDS_FREQ_BLOCK_THREE);
    let v2 = tmp14[0];
    let v6 = tmp14[1];
    let v10 = tmp14[2];
    // The 4th block is not computed as it is similar to the 2nd one, up to complex conjugation,
    // and is, due to the use of the real FFT and iFFT, redundant.

    let tmp15 = ifft4_real_unreduced((v0, v1, v2));
    let s0 = tmp15[0];
    let s3 = tmp15[1];
    let s6 = tmp15[2];
    let s9 = tmp15[3];
    let tmp16 = ifft4_real_unreduced((v4, v5, v6));
    let s1 = tmp16[0];
    let s4 = tmp16[1];
    let s7 = tmp16[2];
    let s10 = tmp16[3];
    let tmp17 = ifft4_real_unreduced((v8, v9, v10));
    let s2 = tmp17[0];
    let s5 = tmp17[1];
    let s8 = tmp17[2];
    let s11 = tmp17[3];

    [s0, s1, s2, s3, s4, s5, s6, s7, s8, s9, s10, s11]
}
}
fn main(){}
