//# unit: c11_f64
//# crate: math
//# mount: math/src/field/f64/mod.rs
//# modpath: field::f64
//# props: C11
//! C11 (f64) — canonical encodings: every decoder accepts exactly the values below the modulus and
//! returns `new(value)`; encoders write the little-endian canonical integer `mont_to_int(inner)`;
//! integer conversions agree with the canonical value. That `mont_to_int(new(v).inner) == v` for
//! every v < M is the Verus theorem C11.f64.as_int_new.identity (unit f64_core); SAT cannot decide
//! the constant multiplication inside `new`.
#![allow(unused_imports, dead_code)]
use utils::{vcheck, vreach, verif_support as vs, SliceReader};

use super::*;

fn any_elem() -> BaseElement {
    let a = vs::any_u64();
    vs::assume(a < M);
    BaseElement::from_mont(a)
}

/// Stands for `BaseElement::new` in the decoder harnesses: an injective tag of the argument, so that
/// "the decoder returns new(value)" is checked without asking SAT to multiply (the contract of
/// `new` itself — canonical result, value preserved — is the Verus unit f64_core).
fn stub_new(value: u64) -> BaseElement {
    BaseElement((value.rotate_left(17) ^ 0x5bd1_e995_9e37_79b9) >> 1)
}

//# harness: fn=f64 TryFrom<u64>, TryFrom<u128>, TryFrom<usize>, TryFrom<[u8; 8]>; label=complete; tier=quick; replay=no
#[cfg_attr(kani, kani::stub(BaseElement::new, stub_new))]
#[cfg_attr(kani, kani::proof)]
#[cfg_attr(kani, kani::stub(alloc::fmt::format, vs::fake_format))]
pub fn k_c11_f64_try_from_ints() {
    let v = vs::any_u64();
    let r = BaseElement::try_from(v);
    vcheck!("C11.f64.try_from_u64.accept_iff_below_modulus", r.is_ok() == (v < M));
    if let Ok(e) = r {
        vcheck!("C11.f64.try_from_u64.is_new", e.0 == BaseElement::new(v).0);
    }
    let w = vs::any_u128();
    let r = BaseElement::try_from(w);
    vcheck!("C11.f64.try_from_u128.accept_iff_below_modulus", r.is_ok() == (w < M as u128));
    if let Ok(e) = r {
        vcheck!("C11.f64.try_from_u128.is_new", e.0 == BaseElement::new(w as u64).0);
    }
    let r = BaseElement::try_from(v as usize);
    vcheck!("C11.f64.try_from_usize.accept_iff_below_modulus", r.is_ok() == (v < M));
    let r = BaseElement::try_from(v.to_le_bytes());
    vcheck!("C11.f64.try_from_array.accept_iff_below_modulus", r.is_ok() == (v < M));
    if let Ok(e) = r {
        vcheck!("C11.f64.try_from_array.is_new", e.0 == BaseElement::new(v).0);
    }
    vreach!("C11.f64.ints.reach");
}

//# harness: fn=f64 TryFrom<&[u8]>, Randomizable::from_random_bytes, Deserializable::read_from; label=complete (every slice length 0..=17, every content); tier=quick; replay=no
#[cfg_attr(kani, kani::stub(BaseElement::new, stub_new))]
#[cfg_attr(kani, kani::proof)]
#[cfg_attr(kani, kani::unwind(10))]
#[cfg_attr(kani, kani::stub(alloc::fmt::format, vs::fake_format))]
pub fn k_c11_f64_try_from_bytes() {
    let bytes: [u8; 17] = vs::any_bytes();
    let len = vs::any_usize();
    vs::assume(len <= 17);
    let mut b8 = [0u8; 8];
    b8.copy_from_slice(&bytes[..8]);
    let v = u64::from_le_bytes(b8);
    let r = BaseElement::try_from(&bytes[..len]);
    vcheck!("C11.f64.try_from_slice.accept_iff_8_bytes_below_modulus", r.is_ok() == (len == 8 && v < M));
    if let Ok(e) = r {
        vcheck!("C11.f64.try_from_slice.is_new", e.0 == BaseElement::new(v).0);
    }
    let o = BaseElement::from_random_bytes(&bytes[..len]);
    vcheck!("C11.f64.from_random_bytes.some_iff_valid", o.is_some() == (len == 8 && v < M));
    let mut rd = SliceReader::new(&bytes[..len]);
    let r = BaseElement::read_from(&mut rd);
    vcheck!("C11.f64.read_from.accept_iff_below_modulus", r.is_ok() == (len >= 8 && v < M));
    if let Ok(e) = r {
        vcheck!("C11.f64.read_from.is_new", e.0 == BaseElement::new(v).0);
    }
    vreach!("C11.f64.bytes.reach");
}

//# harness: fn=f64 Serializable::write_into, as_int, From<BaseElement> for u64/u128, TryFrom<BaseElement> for u8/u16/u32/bool; label=complete; tier=quick; replay=no
#[cfg_attr(kani, kani::stub(BaseElement::new, stub_new))]
#[cfg_attr(kani, kani::proof)]
#[cfg_attr(kani, kani::unwind(10))]
#[cfg_attr(kani, kani::stub(alloc::fmt::format, vs::fake_format))]
pub fn k_c11_f64_encode_and_int_conversions() {
    let e = any_elem();
    let canon = mont_to_int(e.0);
    let mut w = vs::ArrayWriter::<8>::new();
    e.write_into(&mut w);
    vcheck!("C11.f64.write_into.le_canonical", w.pos == 8 && w.buf == canon.to_le_bytes());
    vcheck!("C11.f64.as_int.is_mont_to_int", e.as_int() == canon && StarkField::as_int(&e) == canon);
    vcheck!("C11.f64.into_u64_u128", u64::from(e) == canon && u128::from(e) == canon as u128);
    vcheck!("C11.f64.try_into_u8", u8::try_from(e).ok() == if canon < 256 { Some(canon as u8) } else { None });
    vcheck!("C11.f64.try_into_u16", u16::try_from(e).ok() == if canon < 65536 { Some(canon as u16) } else { None });
    vcheck!("C11.f64.try_into_u32", u32::try_from(e).ok() == if canon < (1 << 32) { Some(canon as u32) } else { None });
    vcheck!("C11.f64.try_into_bool", bool::try_from(e).ok() == if canon == 0 { Some(false) } else if canon == 1 { Some(true) } else { None });
    vreach!("C11.f64.encode.reach");
}

//# harness: fn=f64 From<u8/u16/u32/bool>; label=complete; tier=quick; replay=no
#[cfg_attr(kani, kani::stub(BaseElement::new, stub_new))]
#[cfg_attr(kani, kani::proof)]
pub fn k_c11_f64_from_small_ints() {
    let (a, b, c, d) = (vs::any_u8(), vs::any_u16(), vs::any_u32(), vs::any_bool());
    vcheck!("C11.f64.from_u8.is_new", BaseElement::from(a).0 == BaseElement::new(a as u64).0);
    vcheck!("C11.f64.from_u16.is_new", BaseElement::from(b).0 == BaseElement::new(b as u64).0);
    vcheck!("C11.f64.from_u32.is_new", BaseElement::from(c).0 == BaseElement::new(c as u64).0);
    vcheck!("C11.f64.from_bool.is_new", BaseElement::from(d).0 == BaseElement::new(d as u64).0);
}

//# harness: fn=f64 constants MODULUS, TWO_ADICITY, TWO_ADIC_ROOT_OF_UNITY, GENERATOR, get_root_of_unity; label=closed(orders 2^32, 2^31, 2^1; generator order factors); tier=quick; timeout=900
#[cfg_attr(kani, kani::proof)]
#[cfg_attr(kani, kani::unwind(66))]
#[cfg_attr(kani, kani::stub(alloc::fmt::format, vs::fake_format))]
pub fn k_c11_f64_constants_quick() {
    // modulus = k * 2^TWO_ADICITY + 1 with k odd
    let m = <BaseElement as StarkField>::MODULUS;
    let ta = <BaseElement as StarkField>::TWO_ADICITY;
    vcheck!("C11.f64.modulus.documented_value", m == 0xffffffff00000001 && M == m && <BaseElement as StarkField>::MODULUS_BITS == 64);
    vcheck!("C11.f64.modulus.two_adicity", (m - 1) % (1u64 << ta) == 0 && ((m - 1) >> ta) & 1 == 1);
    let g = <BaseElement as StarkField>::TWO_ADIC_ROOT_OF_UNITY;
    vcheck!("C11.f64.root_of_unity.order_2_32", g.exp(1u64 << 32) == BaseElement::ONE && g.exp(1u64 << 31) != BaseElement::ONE);
    let r1 = BaseElement::get_root_of_unity(1);
    vcheck!("C11.f64.root_of_unity.order_2", r1.exp(2) == BaseElement::ONE && r1 != BaseElement::ONE);
    vcheck!("C11.f64.zero_one", BaseElement::ZERO.0 == 0 && mont_to_int(BaseElement::ONE.0) == 1);
}

//# harness: fn=f64 get_root_of_unity (every order 2^n, n = 1..=32), GENERATOR (order p - 1 via the prime factors 2, 3, 5, 17, 257, 65537 of p - 1); label=closed(exhaustive over orders); tier=thorough; timeout=3000
#[cfg_attr(kani, kani::proof)]
#[cfg_attr(kani, kani::unwind(66))]
#[cfg_attr(kani, kani::stub(alloc::fmt::format, vs::fake_format))]
pub fn k_c11_f64_constants_all_orders() {
    let mut n = 1u32;
    while n <= 32 {
        let r = BaseElement::get_root_of_unity(n);
        vcheck!("C11.f64.root_of_unity.exact_order_all_n", r.exp(1u64 << n) == BaseElement::ONE && r.exp(1u64 << (n - 1)) != BaseElement::ONE);
        n += 1;
    }
    let gen = <BaseElement as StarkField>::GENERATOR;
    let pm1 = M - 1;
    vcheck!("C11.f64.generator.order_divides", gen.exp(pm1) == BaseElement::ONE);
    vcheck!("C11.f64.generator.primitive", gen.exp(pm1 / 2) != BaseElement::ONE && gen.exp(pm1 / 3) != BaseElement::ONE
        && gen.exp(pm1 / 5) != BaseElement::ONE && gen.exp(pm1 / 17) != BaseElement::ONE
        && gen.exp(pm1 / 257) != BaseElement::ONE && gen.exp(pm1 / 65537) != BaseElement::ONE);
    // (no obligation ties TWO_ADIC_ROOT_OF_UNITY to a power of GENERATOR: the property asks for the exact order only,
    // and the documented root 7277203076849721926 is deliberately not 7^((p-1)/2^32) - it was chosen so that the
    // generator of the 64-element domain is 8; an earlier obligation demanding that equality was a false alarm)
}
