//# unit: c03_channel
//# crate: verifier
//# mount: verifier/src/channel.rs
//# modpath: channel
//# assets: mocks
//# props: C03
//! C03 (verifier channel) — the rows the proof reveals at the query positions are handed back to the verifier
//! only after they were checked against the commitments received before the positions were drawn:
//! `read_queried_trace_states` opens the main-segment rows against trace commitment 0 and the auxiliary rows
//! against trace commitment 1, `read_constraint_evaluations` opens the composition rows against the
//! constraint commitment; each opening is given the digests of exactly the revealed rows, the query positions
//! and the batch proof of that segment, and a failed opening makes the call fail. The vector commitment is a
//! recorder that fails on demand ("any commitment scheme"): the obligations are the calls it must see.
#![allow(unused_imports, dead_code, static_mut_refs)]
use alloc::vec::Vec;

use crypto::{
    verif_mocks::{self as mk, MixHasher, D, DN},
    Digest,
};
use math::fields::f64::BaseElement as F64;
use utils::{vcheck, vreach, verif_support as vs};

use super::*;

type HM = MixHasher<F64>;

#[derive(Clone, Copy)]
struct Call {
    commitment: [u8; DN],
    proof: u8,
    n_items: usize,
    item0: [u8; DN],
    item1: [u8; DN],
    pos0: usize,
    pos1: usize,
    n_pos: usize,
}
const NO_CALL: Call = Call { commitment: [0; DN], proof: 0, n_items: 0, item0: [0; DN], item1: [0; DN], pos0: 0, pos1: 0, n_pos: 0 };
static mut CALLS: [Call; 3] = [NO_CALL; 3];
static mut N_CALLS: usize = 0;
/// the opening (by call number) that fails; usize::MAX: none
static mut FAIL_AT: usize = usize::MAX;

fn d8(d: &D) -> [u8; DN] {
    let b = d.as_bytes();
    let mut r = [0u8; DN];
    r.copy_from_slice(&b[..DN]);
    r
}

/// vector commitment recording the openings it is asked to verify
pub struct RecVC;
impl VectorCommitment<HM> for RecVC {
    type Options = ();
    type Proof = u8;
    type MultiProof = u8;
    type Error = ();
    fn with_options(_items: Vec<D>, _o: ()) -> Result<Self, ()> {
        Ok(RecVC)
    }
    fn commitment(&self) -> D {
        D::default()
    }
    fn domain_len(&self) -> usize {
        0
    }
    fn get_proof_domain_len(_p: &u8) -> usize {
        0
    }
    fn get_multiproof_domain_len(_p: &u8) -> usize {
        0
    }
    fn open(&self, _i: usize) -> Result<(D, u8), ()> {
        Err(())
    }
    fn open_many(&self, _i: &[usize]) -> Result<(Vec<D>, u8), ()> {
        Err(())
    }
    fn verify(_c: D, _i: usize, _item: D, _p: &u8) -> Result<(), ()> {
        Err(())
    }
    fn verify_many(c: D, indexes: &[usize], items: &[D], p: &u8) -> Result<(), ()> {
        unsafe {
            let k = N_CALLS;
            if k < 3 {
                CALLS[k] = Call {
                    commitment: d8(&c),
                    proof: *p,
                    n_items: items.len(),
                    item0: if items.len() > 0 { d8(&items[0]) } else { [0; DN] },
                    item1: if items.len() > 1 { d8(&items[1]) } else { [0; DN] },
                    pos0: if indexes.len() > 0 { indexes[0] } else { 0 },
                    pos1: if indexes.len() > 1 { indexes[1] } else { 0 },
                    n_pos: indexes.len(),
                };
            }
            N_CALLS += 1;
            if FAIL_AT == k {
                Err(())
            } else {
                Ok(())
            }
        }
    }
}

fn any_digest() -> D {
    crypto::verif_mocks::digest_from(vs::any_bytes::<DN>())
}
fn elem(v: u64) -> F64 {
    F64::from_mont(v)
}
/// 2 rows x `cols` columns of distinct canonical residues
fn table(cols: usize, base: u64) -> Table<F64> {
    let mut bytes = [0u8; 48];
    let mut i = 0;
    while i < 2 * cols {
        bytes[8 * i..8 * i + 8].copy_from_slice(&(base + i as u64).to_le_bytes());
        i += 1;
    }
    Table::<F64>::from_bytes(&bytes[..16 * cols], 2, cols).unwrap()
}

fn channel(with_aux: bool, c0: D, c1: D, cc: D) -> VerifierChannel<F64, HM, RecVC> {
    VerifierChannel {
        trace_commitments: if with_aux { alloc::vec![c0, c1] } else { alloc::vec![c0] },
        trace_queries: Some(TraceQueries {
            query_proofs: if with_aux { alloc::vec![11u8, 22u8] } else { alloc::vec![11u8] },
            main_states: table(2, 5),
            aux_states: if with_aux { Some(table(1, 100)) } else { None },
            _h: PhantomData,
        }),
        constraint_commitment: cc,
        constraint_queries: Some(ConstraintQueries { query_proofs: 33u8, evaluations: table(3, 200), _h: PhantomData }),
        partition_size_main: 2,
        partition_size_aux: 1,
        partition_size_constraint: 3,
        fri_commitments: None,
        fri_layer_proofs: Vec::new(),
        fri_layer_queries: Vec::new(),
        fri_remainder: None,
        fri_num_partitions: 1,
        ood_trace_frame: None,
        ood_constraint_evaluations: None,
        pow_nonce: 0,
    }
}
fn reset(fail_at: usize) {
    unsafe {
        N_CALLS = 0;
        FAIL_AT = fail_at;
    }
}

//# harness: fn=VerifierChannel::read_queried_trace_states (main and auxiliary segment); label=bounded(2 queried rows, 2 main columns, 1 auxiliary column; every commitment digest and position pair; an opening failure injected at any call); tier=quick; replay=no; uses=channel,table,reset,any_digest,d8; timeout=900
#[cfg_attr(kani, kani::proof)]
#[cfg_attr(kani, kani::unwind(20))]
#[cfg_attr(kani, kani::stub(alloc::fmt::format, vs::fake_format))]
pub fn k_c03_channel_trace_rows_bound_to_commitments() {
    let (c0, c1, cc) = (any_digest(), any_digest(), any_digest());
    let mut ch = channel(true, c0, c1, cc);
    let positions = [vs::any_usize(), vs::any_usize()];
    let fail = vs::any_usize();
    vs::assume(fail <= 2);
    reset(if fail == 2 { usize::MAX } else { fail });
    let r = ch.read_queried_trace_states(&positions);
    let calls = unsafe { CALLS };
    let n = unsafe { N_CALLS };
    // a failed opening of either segment is a rejection; with no failure the rows are handed back
    vcheck!("C03.channel.trace.ok_iff_both_openings_succeed", r.is_ok() == (fail == 2));
    if r.is_ok() {
        let main = table(2, 5);
        let aux = table(1, 100);
        vcheck!("C03.channel.trace.main_rows_opened_against_commitment_0", n == 2 && calls[0].commitment == d8(&c0)
            && calls[0].proof == 11 && calls[0].n_items == 2 && calls[0].n_pos == 2
            && calls[0].pos0 == positions[0] && calls[0].pos1 == positions[1]
            && calls[0].item0 == d8(&hash_row::<HM, F64>(main.get_row(0), 2))
            && calls[0].item1 == d8(&hash_row::<HM, F64>(main.get_row(1), 2)));
        vcheck!("C03.channel.trace.aux_rows_opened_against_commitment_1", n == 2 && calls[1].commitment == d8(&c1)
            && calls[1].proof == 22 && calls[1].n_items == 2 && calls[1].n_pos == 2
            && calls[1].pos0 == positions[0] && calls[1].pos1 == positions[1]
            && calls[1].item0 == d8(&hash_row::<HM, F64>(aux.get_row(0), 1))
            && calls[1].item1 == d8(&hash_row::<HM, F64>(aux.get_row(1), 1)));
    }
    vreach!("C03.channel.trace.reach");
}

//# harness: fn=VerifierChannel::read_constraint_evaluations; label=bounded(2 queried rows of 3 composition columns; every commitment digest and position pair; opening failure injected or not); tier=quick; replay=no; uses=channel,table,reset,any_digest,d8; timeout=900
#[cfg_attr(kani, kani::proof)]
#[cfg_attr(kani, kani::unwind(30))]
#[cfg_attr(kani, kani::stub(alloc::fmt::format, vs::fake_format))]
pub fn k_c03_channel_constraint_rows_bound_to_commitment() {
    let (c0, c1, cc) = (any_digest(), any_digest(), any_digest());
    let mut ch = channel(false, c0, c1, cc);
    let positions = [vs::any_usize(), vs::any_usize()];
    let fail = vs::any_bool();
    reset(if fail { 0 } else { usize::MAX });
    let r = ch.read_constraint_evaluations(&positions);
    let calls = unsafe { CALLS };
    let n = unsafe { N_CALLS };
    vcheck!("C03.channel.constraints.ok_iff_opening_succeeds", r.is_ok() == !fail);
    if r.is_ok() {
        let ev = table(3, 200);
        vcheck!("C03.channel.constraints.rows_opened_against_constraint_commitment", n == 1 && calls[0].commitment == d8(&cc)
            && calls[0].proof == 33 && calls[0].n_items == 2 && calls[0].n_pos == 2
            && calls[0].pos0 == positions[0] && calls[0].pos1 == positions[1]
            && calls[0].item0 == d8(&hash_row::<HM, F64>(ev.get_row(0), 3))
            && calls[0].item1 == d8(&hash_row::<HM, F64>(ev.get_row(1), 3)));
    }
    vreach!("C03.channel.constraints.reach");
}
