//# unit: c03_fri
//# crate: fri
//# mount: fri/src/verifier/mod.rs
//# modpath: verifier
//# assets: mocks
//# props: C03 C09
//! C03 / C09 — FRI verifier: data revealed after the challenges is bound to the commitments.
//!
//! * `VerifierChannel::read_layer_queries`: `Ok(v)` implies that `verify_many` was called with
//!   exactly (layer commitment, positions, hashes of the revealed rows, layer proof) and accepted,
//!   and `v` is the channel's values regrouped.
//! * `FriVerifier::verify` (zero-layer instance, real f64 field): `Ok` implies that the hash of the
//!   remainder equals the last layer commitment, that the remainder respects the degree bound and
//!   that it agrees with every queried evaluation.
#![allow(unused_imports, dead_code, static_mut_refs)]
use alloc::vec::Vec;

use crypto::{
    verif_mocks::{self as mk, MixHasher, D, DN},
    Digest, ElementHasher, Hasher, RandomCoin, RandomCoinError, VectorCommitment,
};
use math::fields::f64::BaseElement as F64;
use utils::{vcheck, vreach, verif_support as vs};

use super::*;

type HM = MixHasher<F64>;

fn any_digest() -> D {
    mk::digest_from(vs::any_bytes::<DN>())
}
fn any_elem() -> F64 {
    let v = vs::any_u64();
    vs::assume(v < 0xffffffff00000001);
    F64::from_mont(v)
}

// --- a vector commitment whose verdict is arbitrary and whose arguments are recorded --------------
static mut VC_CALLS: usize = 0;
static mut VC_COMMITMENT: [u8; 32] = [0; 32];
static mut VC_POSITIONS: [usize; 4] = [0; 4];
static mut VC_NPOS: usize = 0;
static mut VC_ITEMS: [[u8; 32]; 4] = [[0; 32]; 4];
static mut VC_NITEMS: usize = 0;
static mut VC_PROOF: u8 = 0;
static mut VC_VERDICT: bool = false;

pub struct RecVC;
impl VectorCommitment<HM> for RecVC {
    type Options = ();
    type Proof = u8;
    type MultiProof = u8;
    type Error = ();
    fn with_options(_i: Vec<D>, _o: ()) -> Result<Self, ()> {
        Ok(RecVC)
    }
    fn commitment(&self) -> D {
        D::default()
    }
    fn domain_len(&self) -> usize {
        0
    }
    fn get_proof_domain_len(_p: &u8) -> usize {
        0
    }
    fn get_multiproof_domain_len(_p: &u8) -> usize {
        0
    }
    fn open(&self, _i: usize) -> Result<(D, u8), ()> {
        Err(())
    }
    fn open_many(&self, _i: &[usize]) -> Result<(Vec<D>, u8), ()> {
        Err(())
    }
    fn verify(_c: D, _i: usize, _item: D, _p: &u8) -> Result<(), ()> {
        Err(())
    }
    fn verify_many(c: D, positions: &[usize], items: &[D], p: &u8) -> Result<(), ()> {
        unsafe {
            VC_CALLS += 1;
            VC_COMMITMENT = c.as_bytes();
            VC_NPOS = positions.len();
            VC_NITEMS = items.len();
            let mut i = 0;
            while i < 4 && i < positions.len() {
                VC_POSITIONS[i] = positions[i];
                i += 1;
            }
            i = 0;
            while i < 4 && i < items.len() {
                VC_ITEMS[i] = items[i].as_bytes();
                i += 1;
            }
            VC_PROOF = *p;
            VC_VERDICT = vs::any_bool();
            if VC_VERDICT {
                Ok(())
            } else {
                Err(())
            }
        }
    }
}

pub struct MockChannel {
    commitments: Vec<D>,
    remainder: Vec<F64>,
    queries: Vec<F64>,
    proof: u8,
}
impl VerifierChannel<F64> for MockChannel {
    type Hasher = HM;
    type VectorCommitment = RecVC;
    fn read_fri_num_partitions(&self) -> usize {
        1
    }
    fn read_fri_layer_commitments(&mut self) -> Vec<D> {
        self.commitments.clone()
    }
    fn take_next_fri_layer_queries(&mut self) -> Vec<F64> {
        self.queries.clone()
    }
    fn take_next_fri_layer_proof(&mut self) -> u8 {
        self.proof
    }
    fn take_fri_remainder(&mut self) -> Vec<F64> {
        self.remainder.clone()
    }
}

pub struct MockCoin;
impl RandomCoin for MockCoin {
    type BaseField = F64;
    type Hasher = HM;
    fn new(_seed: &[F64]) -> Self {
        MockCoin
    }
    fn reseed(&mut self, _d: D) {}
    fn check_leading_zeros(&self, _v: u64) -> u32 {
        0
    }
    fn draw<E: FieldElement<BaseField = F64>>(&mut self) -> Result<E, RandomCoinError> {
        Ok(E::from(vs::any_u32()))
    }
    fn draw_integers(&mut self, _n: usize, _d: usize, _nonce: u64) -> Result<Vec<usize>, RandomCoinError> {
        Ok(Vec::new())
    }
}

//# harness: fn=fri::VerifierChannel::read_layer_queries::<2>; label=bounded(2 positions, folding factor 2; every element, digest, position, proof token and verdict); tier=quick; props=C03,C09; timeout=300
#[cfg_attr(kani, kani::proof)]
#[cfg_attr(kani, kani::unwind(34))]
#[cfg_attr(kani, kani::stub(alloc::fmt::format, vs::fake_format))]
pub fn k_c03_fri_layer_queries_bound() {
    let q = [any_elem(), any_elem(), any_elem(), any_elem()];
    let mut ch = MockChannel { commitments: Vec::new(), remainder: Vec::new(), queries: q.to_vec(), proof: vs::any_u8() };
    let commitment = any_digest();
    let positions = [vs::any_usize(), vs::any_usize()];
    unsafe {
        VC_CALLS = 0;
    }
    let r = ch.read_layer_queries::<2>(&positions, &commitment);
    unsafe {
        vcheck!("C03.fri.layer.commitment_check_performed", VC_CALLS == 1);
        vcheck!("C03.fri.layer.ok_iff_commitment_check_accepts", r.is_ok() == VC_VERDICT);
        vcheck!("C03.fri.layer.checked_against_layer_commitment", VC_COMMITMENT == commitment.as_bytes());
        vcheck!("C03.fri.layer.checked_positions", VC_NPOS == 2 && VC_POSITIONS[0] == positions[0] && VC_POSITIONS[1] == positions[1]);
        vcheck!("C03.fri.layer.checked_proof", VC_PROOF == ch.proof);
        vcheck!("C03.fri.layer.checked_hashes_of_revealed_rows", VC_NITEMS == 2
            && VC_ITEMS[0] == HM::hash_elements(&[q[0], q[1]]).as_bytes()
            && VC_ITEMS[1] == HM::hash_elements(&[q[2], q[3]]).as_bytes());
    }
    if let Ok(v) = r {
        vcheck!("C03.fri.layer.returns_revealed_rows", v.len() == 2 && v[0] == [q[0], q[1]] && v[1] == [q[2], q[3]]);
    }
    vreach!("C03.fri.layer.reach");
}

//# harness: fn=FriVerifier::new, FriVerifier::verify, verify_generic::<2> (zero FRI layers), read_remainder, eval_horner_rev; label=bounded(domain 8, remainder of 2 coefficients, 1 query; every element, digest and position); tier=quick; props=C03,C09; timeout=900
#[cfg_attr(kani, kani::proof)]
#[cfg_attr(kani, kani::unwind(66))]
#[cfg_attr(kani, kani::stub(alloc::fmt::format, vs::fake_format))]
pub fn k_c03_fri_remainder_bound() {
    let commitment = any_digest();
    let remainder = alloc::vec![any_elem(), any_elem()];
    let mut ch = MockChannel { commitments: alloc::vec![commitment], remainder: remainder.clone(), queries: Vec::new(), proof: 0 };
    let mut coin = MockCoin;
    // max_poly_degree 3, blowup 2 => domain 8 <= (3 + 1) * 2: no FRI layer, only the remainder
    let opts = FriOptions::new(2, 2, 3);
    let v = FriVerifier::<F64, MockChannel, HM, MockCoin, RecVC>::new(&mut ch, &mut coin, opts, 3).unwrap();
    let pos = vs::any_usize();
    vs::assume(pos < 8);
    let ev = any_elem();
    let res = v.verify(&mut ch, &[ev], &[pos]);
    if res.is_ok() {
        vcheck!("C03.fri.remainder_bound_to_last_commitment", HM::hash_elements(&remainder) == commitment);
        vcheck!("C09.fri.remainder_within_degree_bound", remainder.len() <= 4);
    }
    vreach!("C03.fri.remainder.reach");
}

// C09 "the declared bound is below the true degree": with no FRI layer the remainder is the polynomial itself;
// a remainder with one coefficient more than the declared bound allows (bound 3 => at most 4 coefficients)
// must be rejected whatever its values, its commitment and the queried evaluation are.
//# harness: fn=FriVerifier::new, FriVerifier::verify, verify_generic::<2> (zero FRI layers, remainder length check); label=bounded(domain 8, remainder of 5 coefficients = bound + 2, 1 query; every element, digest and position); tier=quick; props=C09; timeout=900
#[cfg_attr(kani, kani::proof)]
#[cfg_attr(kani, kani::unwind(66))]
#[cfg_attr(kani, kani::stub(alloc::fmt::format, vs::fake_format))]
pub fn k_c09_fri_overlong_remainder_rejected() {
    let commitment = any_digest();
    let remainder = alloc::vec![any_elem(), any_elem(), any_elem(), any_elem(), any_elem()];
    let mut ch = MockChannel { commitments: alloc::vec![commitment], remainder, queries: Vec::new(), proof: 0 };
    let mut coin = MockCoin;
    let opts = FriOptions::new(2, 2, 3);
    let v = FriVerifier::<F64, MockChannel, HM, MockCoin, RecVC>::new(&mut ch, &mut coin, opts, 3).unwrap();
    let pos = vs::any_usize();
    vs::assume(pos < 8);
    let ev = any_elem();
    let res = v.verify(&mut ch, &[ev], &[pos]);
    vcheck!("C09.fri.remainder_one_longer_than_bound_rejected", res.is_err());
}

/// zero FRI layers, a fixed committed remainder r(x) (coefficients in reverse order, as sent): the queried
/// evaluation is accepted exactly when it is r evaluated at the queried domain point offset * g^position
fn remainder_evaluation_exact(pos: usize) {
    // reverse order: r(x) = 5 x + 3
    let remainder = alloc::vec![F64::new(5), F64::new(3)];
    let commitment = HM::hash_elements(&remainder);
    let mut ch = MockChannel { commitments: alloc::vec![commitment], remainder, queries: Vec::new(), proof: 0 };
    let mut coin = MockCoin;
    let opts = FriOptions::new(2, 2, 3);
    let v = FriVerifier::<F64, MockChannel, HM, MockCoin, RecVC>::new(&mut ch, &mut coin, opts, 3).unwrap();
    // the 8-point evaluation domain: offset * g^pos
    let x = v.options().domain_offset::<F64>() * F64::get_root_of_unity(3).exp_vartime(pos as u64);
    let expected = F64::new(5) * x + F64::new(3);
    let ev = any_elem();
    let res = v.verify(&mut ch, &[ev], &[pos]);
    vcheck!("C09.fri.remainder.evaluation_accepted_iff_on_the_committed_polynomial", res.is_ok() == (ev.inner() == expected.inner()));
}

//# harness: fn=FriVerifier::verify, verify_generic::<2> (zero FRI layers: queried evaluation against the remainder polynomial), eval_horner_rev; label=bounded(domain 8, fixed 2-coefficient remainder, positions 0, 3 and 6; every queried evaluation); tier=quick; props=C09; uses=remainder_evaluation_exact,any_elem; timeout=900
#[cfg_attr(kani, kani::proof)]
#[cfg_attr(kani, kani::unwind(66))]
#[cfg_attr(kani, kani::stub(alloc::fmt::format, vs::fake_format))]
pub fn k_c09_fri_remainder_evaluation_exact() {
    remainder_evaluation_exact(0);
    remainder_evaluation_exact(3);
    remainder_evaluation_exact(6);
    vreach!("C09.fri.remainder_eval.reach");
}

// (A one-layer instance - domain 8 -> 4, revealed row, folding challenge and consistent remainder all fixed, only the
// two queried evaluations of one coset row symbolic, obligation "accepted iff the opening succeeds and both
// evaluations equal the revealed values" - did not finish in 25 minutes: interpolate_batch / batch inversion over
// the 64-bit field dominate even on fixed data. The per-position folding-consistency check of verify_generic with
// at least one layer is therefore NOT under contract; seed C09-folding-check-first-match-only is not caught.)

//# harness: fn=FriVerifier::verify (argument checks); label=complete; tier=quick; props=C09; timeout=600
#[cfg_attr(kani, kani::proof)]
#[cfg_attr(kani, kani::unwind(66))]
#[cfg_attr(kani, kani::stub(alloc::fmt::format, vs::fake_format))]
pub fn k_c09_fri_length_mismatch_rejected() {
    let commitment = any_digest();
    let mut ch = MockChannel { commitments: alloc::vec![commitment], remainder: alloc::vec![F64::ONE], queries: Vec::new(), proof: 0 };
    let mut coin = MockCoin;
    let v = FriVerifier::<F64, MockChannel, HM, MockCoin, RecVC>::new(&mut ch, &mut coin, FriOptions::new(2, 2, 3), 3).unwrap();
    let res = v.verify(&mut ch, &[F64::ONE, F64::ONE], &[1]);
    vcheck!("C09.fri.evaluation_position_count_mismatch_rejected", res.is_err());
}
