//# unit: c16_mds
//# crate: crypto
//# mount: crypto/src/hash/mds/mds_f64_12x12.rs
//# modpath: hash::mds::mds_f64_12x12
//# props: C16
//! C16 — the frequency-domain MDS multiplication used by Rp64_256 (`mds_multiply`: split into 32-bit halves,
//! real 4-point FFTs, block products with the small frequency-domain constants, inverse FFTs, final
//! reduction of a 96-bit value) equals the product with the published circulant MDS matrix (first row
//! 7, 23, 8, 26, 13, 10, 9, 7, 6, 22, 21, 8) on EVERY state: all multiplications are by small constants, so
//! the comparison is bit-precise over the full 12 x 64-bit input space, one output word per harness. The
//! state words are Montgomery residues and the matrix product is linear, so the identity is stated on the
//! residues: result[r] == sum_j M[r][j] * state[j] (mod p), result[r] canonical.
#![allow(unused_imports, dead_code)]
use utils::{vcheck, vreach, verif_support as vs};

use super::*;

const P: u128 = 0xffff_ffff_0000_0001;
const ROW: [u128; 12] = [7, 23, 8, 26, 13, 10, 9, 7, 6, 22, 21, 8];

fn any_state() -> [BaseElement; 12] {
    let mut s = [BaseElement::ZERO; 12];
    let mut i = 0;
    while i < 12 {
        let v = vs::any_u64();
        vs::assume((v as u128) < P);
        s[i] = BaseElement::from_mont(v);
        i += 1;
    }
    s
}

/// output word `r` of mds_multiply against row `r` of the circulant matrix
fn word_matches(r: usize) {
    let s = any_state();
    let mut t = s;
    mds_multiply(&mut t);
    let mut acc: u128 = 0;
    let mut j = 0;
    while j < 12 {
        // M[r][j] = ROW[(j - r) mod 12]
        acc += ROW[(j + 12 - r) % 12] * (s[j].inner() as u128);
        j += 1;
    }
    // reference reduction of the (< 2^73) integer product without division: 2^64 = 2^32 - 1 (mod p)
    let lo = acc & 0xffff_ffff_ffff_ffff;
    let hi = acc >> 64;
    let mut w = lo + hi * 0xffff_ffff; // < 2^64 + 2^41
    if w >= P {
        w -= P;
    }
    if w >= P {
        w -= P;
    }
    let got = t[r].inner() as u128;
    vcheck!("C16.rp64.mds.word_equals_matrix_row_product", got == w || got == w + P);
    vcheck!("C16.rp64.mds.word_canonical", got < P);
}

//# harness: fn=mds_multiply, mds_multiply_freq, block1, block2, block3 (output word 0); label=complete (every state of 12 canonical words); tier=quick; uses=word_matches,any_state; timeout=1500
#[cfg_attr(kani, kani::proof)]
#[cfg_attr(kani, kani::unwind(14))]
pub fn k_c16_mds_word0() {
    word_matches(0);
    vreach!("C16.mds.0.reach");
}
