"""Per-property configuration: which units decide it, claimed level, trusted base."""

PROPS = {
    "C10": {
        "level": "proof",
        "kani": ["c10_f64", "c10_f62", "c10_f128"],
        "verus": ["f64_core", "f62_core", "f128_core"],
        "level_text": "Exact modular contracts (requires/ensures) on the real text of the base-field primitives, "
                      "discharged for all inputs: Verus for the Montgomery cores of f64 and f62 and for the 128x128-bit "
                      "multiply-and-reduce of f128, Kani over the full 2^64 x 2^64 domain for the linear operations and equality.",
        "level_note": "Trusted: Verus/Z3, Kani/CBMC, vstd specs, assume_specification for u64::overflowing_add/sub, the value of the "
                      "trait constant ZERO (axiom_zero, cross-checked by Kani). Under contract: "
                      "f64/f62/f128 add, sub, neg, mul, new, eq; f64/f62 double, as_int, normalize, mul_small; f64 square (trait default "
                      "at BaseElement), exp7; quadratic- and cubic-extension mul / mul_base (against the schoolbook product reduced by the "
                      "documented polynomial), f64 quadratic and cubic square, quadratic and cubic frobenius (f64, f62; f128 quadratic); "
                      "f128 limb helpers mul_128x64, mul_by_modulus, mul_reduce, sub_modulus, sub_192x192, add64_with_carry. "
                      "NOT under contract: exp, exp_vartime, inv (except zero -> zero and termination on both zero representations "
                      "for f62), extension inv, f128 inv, division, cube default (see evidence).",
        "trusted": [],
        "assumptions": [],
        "explanation": "",
    },
    "C26": {
        "level": "proof",
        "kani": ["c26_serde"],
        "verus": [],
        "level_text": "Round-trip, exact-length and rejects-malformed contracts on the real encoders/decoders; scalar "
                      "codecs are loop-free and checked over their full machine domains (complete); containers are bounded.",
        "level_note": "Trusted: Kani/CBMC model of alloc (Vec, String::from_utf8). Containers (Vec, String) are "
                      "bounded to <= 3 elements and labelled so; BTreeMap/BTreeSet not under contract.",
    },
    "C05": {
        "level": "model_checking",
        "kani": ["c05_air", "c26_serde", "c19_merkle", "c05_fri"],
        "verus": [],
        "level_text": "Panic-freedom contract (requires true, ensures returns Ok or Err) on every decoder and verifier-side "
                      "parser, checked by Kani on a nondeterministic reader: complete for loop-free decoders, bounded "
                      "(stated input budget) for count-driven ones.",
        "level_note": "Trusted: Kani's model of alloc (an oversized Vec::with_capacity is a reachable capacity_overflow; a "
                      "huge allocation below isize::MAX is not modelled). verify() as a whole is not under contract; "
                      "its decoders/parsers are, function by function.",
    },
    "C07": {
        "level": "model_checking",
        "kani": ["c05_air", "c05_fri"],
        "verus": [],
        "level_text": "Contract pair encode/decode checked in composed form read_from(to_bytes(v)) == Ok(v) with v built "
                      "by the public constructor from fully symbolic arguments (complete in all scalar arguments; "
                      "container contents bounded).",
        "level_note": "Trusted: Kani/CBMC, alloc model. Metadata/container lengths bounded as labelled per obligation. Under "
                      "contract: ProofOptions, TraceInfo, Context, Commitments (3 digests), a 32-byte digest, FriProof without "
                      "layers. NOT under contract: Queries, OodFrame, FriProofLayer, BatchMerkleProof round trips and the "
                      "verdict-preservation clause for whole proofs.",
    },
    "C21": {
        "level": "proof",
        "kani": ["c21_assertions"],
        "verus": ["assertions"],
        "level_text": "overlaps_with (exactly when a common cell exists) and validate_trace_length (accepts exactly the fitting "
                      "lengths) are proved in Verus on the extracted real text for every trace length; step sets, order, "
                      "values and counts of apply/get_num_steps are checked by Kani for trace lengths 8 and 16 (bounded, labelled).",
        "level_note": "Trusted: Verus/Z3, Kani/CBMC; assume_specification for usize::is_power_of_two (cross-checked by a "
                      "full-domain Kani harness). apply/get_num_steps use closures Verus rejects: bounded Kani only.",
    },
    "C25": {
        "level": "proof",
        "kani": ["c25_security", "c25_validate"],
        "verus": [],
        "level_text": "ConjecturedSecurity::compute and AcceptableOptions::validate are loop-free integer code: the bounds, "
                      "monotonicity (two-call relational contract) and accept-iff-threshold contracts are checked by Kani "
                      "over every constructor-accepted option value, every field size and every collision-resistance level.",
        "level_note": "Trusted: Kani/CBMC. Not covered: ProvenSecurity::compute (f64 log2/powf/sqrt: neither verifier models "
                      "libm) - only its is_at_least/max logic is under contract; its bounds and monotonicity are not decided.",
    },
    "C24": {
        "level": "model_checking",
        "kani": ["c24_seed"],
        "verus": [],
        "level_text": "Two-context relational contract on Context::to_elements: equal seed vectors imply equal parameters. "
                      "Complete in every scalar parameter of both contexts (full constructor-accepted ranges); metadata "
                      "bounded to the lengths listed (crossing the 15-byte chunk of f128).",
        "level_note": "Run at E = f128 (identity representation); transfer to f64/f62 rests on injectivity of their "
                      "From<u32>/from_bytes_with_padding, i.e. as_int(new(v)) == v (C11, Verus). Known finding F17 "
                      "(trailing zero bytes of metadata) is reported, not suppressed for other inputs.",
    },
    "C20": {
        "level": "model_checking",
        "kani": ["c20_coin"],
        "verus": [],
        "level_text": "Contracts on every DefaultRandomCoin method over a recording hasher with fresh unconstrained outputs: "
                      "which hash calls are made (kind, arguments, order) and how outputs depend on the digests; loop-free "
                      "methods complete, draw_integers for 0..=3 values, draw with a valid element within two digests.",
        "level_note": "Trusted: the recording hasher is a test fixture standing for any hash function; determinism follows "
                      "because every output is a function of (seed, counter, arguments) through the recorded calls. The "
                      "1000-iteration exhaustion paths of draw/draw_integers are not explored.",
    },
    "C19": {
        "level": "model_checking",
        "kani": ["c19_merkle"],
        "verus": [],
        "level_text": "MerkleTree::verify: exact path recomputation stated over the recorded merge calls of an arbitrary hash "
                      "function (proof lengths 1-3, every index); map_indexes / domain-length functions over every depth; "
                      "get_root / verify_batch panic-free on malformed inputs for enumerated shapes with "
                      "symbolic contents.",
        "level_note": "Trusted: BTreeMap/BTreeSet replaced by a sorted-Vec model under cfg(kani) (real B-tree internals do not "
                      "terminate in CBMC); rejection of wrong data assumes a collision-free hasher (standard). Shapes outside "
                      "the enumeration and depth > 3 for batch functions are not covered. NOT under contract: into_openings on "
                      "malformed input (the one-index instance did not finish in 30 minutes).",
    },
    "C18": {
        "level": "model_checking",
        "kani": ["c19_merkle"],
        "verus": [],
        "level_text": "Consistency contracts among new/prove/verify/prove_batch/verify_batch/get_root "
                      "for every hash function that is a function (cheap mixing hasher), on 2- and 4-leaf "
                      "trees with symbolic digests; batch routes on enumerated concrete index sequences.",
        "level_note": "Bounded: trees of 2 and 4 leaves, listed index sequences. BTree model as for C19. The parallel "
                      "(rayon) build is not covered: Kani has no thread support. NOT under contract: from_single_proofs and "
                      "into_openings (equality with the single openings): CBMC does not finish even a one-index instance on a "
                      "2-leaf tree in 35 minutes.",
    },
    "C03": {
        "level": "model_checking",
        "kani": ["c03_fri", "c03_channel"],
        "verus": [],
        "level_text": "Ok-path implications of the verifier-side reveal functions, stated modularly over the contract of "
                      "VectorCommitment::verify_many (recorded, arbitrary verdict) and an arbitrary functional hasher: "
                      "read_layer_queries performs exactly the commitment check on the revealed rows; a zero-layer "
                      "FriVerifier::verify accepts only a remainder whose hash is the last commitment; the main verifier channel "
                      "(read_queried_trace_states, read_constraint_evaluations) opens the digests of exactly the revealed main, "
                      "auxiliary and composition rows against trace commitments 0 / 1 and the constraint commitment, and a "
                      "failed opening rejects.",
        "level_note": "Bounded instances (2 positions / 1 query, domain 8, 2 remainder coefficients) over the real f64 field. "
                      "Trusted: mocks (hasher, coin, vector commitment, channel); verify_many's own contract is C19. The "
                      "channel unit uses 2 queried rows of fixed contents (symbolic commitments, positions and injected opening "
                      "failures). NOT under contract: VerifierChannel::new (how the commitments and tables are taken out of the proof).",
    },
    "C09": {
        "level": "model_checking",
        "kani": ["c03_fri"],
        "verus": [],
        "level_text": "Deterministic rejection clauses of the FRI verifier as implications of verify(): revealed layer values "
                      "bound to the layer commitment, remainder bound to the last commitment and to the degree bound (a remainder "
                      "one coefficient longer than the bound is rejected), a queried evaluation accepted exactly when it lies on "
                      "the committed remainder polynomial (zero-layer instance), argument-count mismatch rejected.",
        "level_note": "The probabilistic clause (far-from-low-degree data is rejected) is not decidable by contracts. Bounded "
                      "instances as in C03. NOT under contract: the per-position folding-consistency check of verify_generic with "
                      "at least one FRI layer (a fully fixed one-layer instance with two symbolic evaluations did not finish in 25 "
                      "minutes) - seed C09-folding-check-first-match-only is not caught.",
    },
    "C13": {
        "level": "model_checking",
        "kani": ["c13_math"],
        "verus": [],
        "level_text": "Each polynomial helper against its definition (convolution, explicit powers, Euclid identity, vanishing at roots) on the real generic code monomorphised at the verification-only field F_17; all element values, small fixed lengths.",
        "level_note": "BOUNDED (never counted as proved): F_17 with <= 5 symbolic elements per obligation, lengths <= 4, degree patterns with non-zero leading coefficients for div. Transfer to production fields rests on parametricity of the generic code + C10. interpolate_batch, eval over mixed base/extension types and longer operands are not covered.",
    },
    "C14": {
        "level": "model_checking",
        "kani": ["c13_math", "c14_slices"],
        "verus": [],
        "level_text": "Element-wise definitions of batch_inversion (zeros anywhere), power series, add_in_place and mul_acc on the real generic code at F_17, all element values, lengths 3-6.",
        "level_note": "BOUNDED: F_17, lengths <= 6 (never across the 1024-element parallel batch boundary; the concurrent feature is not applicable: Kani has no threads). Slice helpers on 12-byte payloads, group sizes 2-4.",
    },
    "C12": {
        "level": "model_checking",
        "kani": ["c13_math"],
        "verus": [],
        "level_text": "FFT evaluation equals naive evaluation and interpolation inverts it at n = 4 (all coefficients) and on the blowup-2 coset with symbolic offset; permute_index is the bit reversal and an involution for every size up to 2^16.",
        "level_note": "BOUNDED: F_17, n = 4 (and 8 evaluation points); MAX_LOOP (256) recursion switch and the 1024 concurrency threshold are never crossed; thread clause not applicable (Kani has no threads).",
    },
    "C11": {
        "level": "proof",
        "kani": ["c11_f64", "c11_f62", "c10_f128"],
        "verus": ["f64_core", "f62_core"],
        "level_text": "Decoders accept exactly the values below the modulus and return new(value), encoders write the "
                      "little-endian canonical integer (Kani, complete over all byte strings / integers); "
                      "as_int(new(v)) == v for every v < M and the Montgomery constants R2/R3/U are proved in Verus on the "
                      "extracted real text; root-of-unity orders and the modulus shape are closed-term evaluations.",
        "level_note": "Trusted: primality of the moduli, the factorisation of p - 1, irreducibility of the extension "
                      "polynomials and the Frobenius coefficient tables are not derived inside the verifiers (number "
                      "theory outside contract reach). f128 decoders and the extension-field decoders are not under "
                      "contract yet. Closed-term obligations are finite evaluations, not proofs over inputs.",
    },
    "C15": {
        "level": "model_checking",
        "kani": ["c15_blake", "c15_sha"],
        "verus": [],
        "level_text": "Layout contracts on the BLAKE3 hashers with the primitive replaced by a recorder: the bytes handed to "
                      "blake3 are exactly the documented layout and the digest is its (truncated) output, for every byte, "
                      "digest, integer and element value; hash_elements is independent of the internal representation.",
        "level_note": "Trusted: the blake3 / sha3 primitives (never entered; sha3::Sha3_256 is replaced by a recorder type through a "
                      "cfg-split import). Bounded input lengths (5 bytes, 2-3 digests, 2 elements). Extension-field "
                      "element lists and Blake3_192 hash_elements are not under contract yet.",
    },
    "C16": {
        "level": "model_checking",
        "kani": ["c16_rp64", "c16_rp62", "c16_jive", "c16_mds"],
        "verus": [],
        "level_text": "Sponge rules of Rp64_256 (capacity initialisation, 7-byte chunking, single padding byte, rate-block "
                      "boundaries, merge == hash_elements of 8, merge_with_int split at the modulus) as contracts on the "
                      "state handed to the permutation, with apply_permutation replaced by a recorder; every byte / "
                      "element / digest / integer value, enumerated lengths.",
        "level_note": "PARTIAL: the permutation itself (S-box, inverse S-box chain, frequency-domain MDS vs the MDS matrix, "
                      "round constants vs the publication) is NOT under contract - SAT cannot decide the multiplications "
                      "and Verus rejects the slice patterns / closures of that code. Rp62_248 sponge rules are under the "
                      "same contracts; of the Jive variant (RpJive64_256) the compression rules of merge and merge_with_int "
                      "(state loading, element count, Jive summation over any permutation) are under contract, its "
                      "hash / hash_elements sponge rules are not.",
    },
    "C17": {
        "level": "model_checking",
        "kani": ["c16_rp64", "c16_rp62", "c16_jive", "c15_blake"],
        "verus": [],
        "level_text": "Necessary condition decided by contracts: the encoding handed to the permutation / primitive is "
                      "injective on the structured families (zero-extensions, chunk boundaries, trailing zero elements, "
                      "x vs x + p); different digests then follow from collision resistance (assumed).",
        "level_note": "Collision resistance of the permutation / BLAKE3 is the standard assumption. Bounded lengths as "
                      "labelled; Rp62_248, Jive and SHA3 not yet covered.",
    },
    "C23": {
        "level": "model_checking",
        "kani": ["c23_degrees", "c22_boundary", "c23_periodic"],
        "verus": [],
        "level_text": "Integer clauses as contracts: evaluation-degree formula and sufficient power-of-two minimum blowup for "
                      "every base degree and trace length 2^3..2^31 (cycle shapes [], [c], [c, d]); enough composition "
                      "columns and a large enough constraint-evaluation domain for every accepted (degree, blowup, "
                      "exemption) combination at enumerated trace lengths.",
        "level_note": "Shapes (trace length for the column clause, number of cycles) are enumerated, not symbolic. Field "
                      "clauses (divisor zeros, periodic column polynomials) are not under contract yet.",
    },
    "C28": {
        "level": "model_checking",
        "kani": ["c28_rowhash_verifier", "c28_rowhash_prover"],
        "verus": [],
        "level_text": "Row commitments: the prover's commit_to_rows and the verifier's hash_row are each checked against one "
                      "shared row-digest specification stated over the recorded calls of an arbitrary hash function, so "
                      "they agree for every hasher; partition arithmetic is complete over all settings.",
        "level_note": "PARTIAL: the LDE clauses (evaluate_polys / interpolate_columns equal naive evaluation) are not under "
                      "contract (a unit over F_17 with 4-coefficient columns was tried: CBMC aborts in propositional reduction after "
                      "115k verification conditions, with one or two symbolic columns alike; the FFT underneath is under contract in "
                      "C12 at the same sizes); row widths <= 6, 2 rows, listed partition settings. ColMatrix::commit_to_rows not covered.",
    },
    "C29": {
        "level": "model_checking",
        "kani": ["c29_validate"],
        "verus": [],
        "level_text": "Trace::validate is run on the real generic code with a mock AIR over F_17 (periodic column, single "
                      "assertion, trace length 8) and compared with a direct evaluation written in the harness: accepts "
                      "every satisfying trace, rejects every single-cell corruption at a non-exempt step; a second mock AIR (three "
                      "exemptions, periodic and sequence assertions) whose cells 6 and 7 are constrained only as the second step "
                      "of a multi-step assertion: a violation there is rejected; fill == init.",
        "level_note": "BOUNDED: F_17, two AIR shapes, length 8, no auxiliary segment. BTreeMap in "
                      "air/src/air/mod.rs replaced by the sorted-Vec model under cfg(kani). NOT under contract: "
                      "TraceTable::fragments / TraceTableFragment::fill (CBMC aborts on the vector of mutable column chunks), "
                      "auxiliary-segment assertions and constraints.",
    },
    "C01": {
        "level": "other",
        "kani": ["c05_air", "c23_degrees", "c28_rowhash_verifier", "c28_rowhash_prover"],
        "verus": [],
        "level_text": "Completeness of the whole prover/verifier pair is not expressible as a function contract; what is "
                      "decided are interface obligations between prover-side producers and verifier-side consumers, each "
                      "necessary for completeness: table sizes up to 255 x 255 accepted, enough composition columns for "
                      "every accepted degree/exemption declaration, prover and verifier row digests equal to one shared "
                      "rule. A refuted obligation is a true violation; discharging them all does not prove C01.",
        "level_note": "Necessary conditions only (level other). Not covered: constraint evaluation, DEEP composition, FRI "
                      "folding algebra, OOD consistency, every data-parallel path.",
        "explanation": "necessary-condition contracts (Kani, complete/bounded as labelled per obligation) on producer/"
                       "consumer interfaces named in the property's anchors; see level_text",
    },
    "C22": {
        "level": "model_checking",
        "kani": ["c22_boundary"],
        "verus": [],
        "level_text": "On the real generic code at F_17 (trace length 8): assertion divisors vanish exactly on the asserted "
                      "steps with degree equal to their number; each boundary constraint is zero at an asserted step's "
                      "domain point exactly when the trace holds the asserted value (all assertion kinds, symbolic values).",
        "level_note": "BOUNDED: F_17, trace length 8, sequences of 2 or 4 values (never 64+), one constraint at a time. "
                      "Order independence of coefficient assignment (prepare_assertions) and the prover-side specialised "
                      "evaluators are not under contract. BTreeMap/BTreeSet replaced by the sorted-Vec model under cfg(kani).",
    },
}

NOT_APPLICABLE = {
    "C02": "soundness is a probabilistic statement over the verifier's challenges and an idealised hash; no pre/postcondition on a winterfell function expresses it (deterministic necessary conditions are claimed under C03, C09, C24)",
    "C04": "2-safety property of the whole verifier over pairs of byte strings, relying on collision resistance; the per-field canonical-decoding facts are claimed under C07, C11, C26 and commitment binding under C03",
    "C06": "thread schedules and feature builds: Kani has no thread support and Verus cannot ingest rayon; different feature builds can only be compared by running them, which is another technique",
    "C08": "needs the inductive algebraic argument that apply_drp equals the verifier's interpolation at every layer over every field; beyond both verifiers (SAT budget is ~5 symbolic field elements at F_17)",
    "C27": "ReadAdapter is RefCell<BufReader<&mut dyn Read>> plus raw-pointer copies: rejected by Verus, and CBMC exhausted 62 GB on a 24-byte/4-operation instance",
}
for _p in ["C01", "C03", "C05", "C07", "C09", "C11", "C12", "C13", "C14", "C15", "C16", "C17", "C18", "C19", "C20",
           "C21", "C22", "C23", "C24", "C25", "C26", "C28", "C29"]:
    NOT_APPLICABLE.setdefault(_p, "check not built yet (planned, see DESIGN.md section 4)")
