//# unit: c13_math
//# crate: math
//# mount: math/src/lib.rs
//# modpath:
//# assets: tiny
//# props: C13 C14 C12
//! C13 / C14 / C12 — generic polynomial helpers, batch utilities and FFT, monomorphised at the
//! verification-only field F_17 (`Tiny`) and compared with their mathematical definitions written
//! out directly (sums of products, explicit powers). BOUNDED: at most ~5 symbolic field elements
//! per obligation; the step from F_17 to the production fields rests on parametricity of the generic
//! code (it touches elements only through the field traits) plus C10.
#![allow(unused_imports, dead_code)]
use alloc::vec::Vec;

use utils::{vcheck, vreach, verif_support as vs};

use crate::{
    batch_inversion, add_in_place, fft, get_power_series, get_power_series_with_offset, mul_acc, polynom,
    verif_tinyfield::{Tiny, P},
    FieldElement, StarkField,
};

fn any_tiny() -> Tiny {
    let v = vs::any_u32();
    vs::assume(v < P);
    Tiny(v)
}
fn any_nonzero() -> Tiny {
    let t = any_tiny();
    vs::assume(t.0 != 0);
    t
}
/// definition of evaluation: sum of c_i * x^i with explicit powers
fn ref_eval(p: &[Tiny], x: Tiny) -> Tiny {
    let mut acc = Tiny::ZERO;
    let mut xp = Tiny::ONE;
    let mut i = 0;
    while i < p.len() {
        acc = acc + p[i] * xp;
        xp = xp * x;
        i += 1;
    }
    acc
}
fn pw(b: Tiny, e: usize) -> Tiny {
    let mut r = Tiny::ONE;
    let mut i = 0;
    while i < e {
        r = r * b;
        i += 1;
    }
    r
}

// ------------------------------------------------------------------------------------------------
// C13

//# harness: fn=polynom::eval, polynom::eval_many; label=bounded(F_17; 4 coefficients, all values); tier=quick; props=C13; timeout=400; uses=ref_eval,any_tiny
#[cfg_attr(kani, kani::proof)]
#[cfg_attr(kani, kani::unwind(6))]
pub fn k_c13_eval() {
    let p = [any_tiny(), any_tiny(), any_tiny(), any_tiny()];
    let x = any_tiny();
    vcheck!("C13.eval.definition", polynom::eval(&p, x) == ref_eval(&p, x));
    let e: [Tiny; 0] = [];
    vcheck!("C13.eval.empty_is_zero", polynom::eval(&e, x) == Tiny::ZERO);
    let ys = polynom::eval_many(&p[..2], &[x, Tiny::ONE]);
    vcheck!("C13.eval_many.pointwise", ys.len() == 2 && ys[0] == p[0] + p[1] * x && ys[1] == p[0] + p[1]);
    vreach!("C13.eval.reach");
}

//# harness: fn=polynom::add, sub, mul, mul_by_scalar; label=bounded(F_17; operand lengths 3+2 / 2x2 / 3); tier=quick; props=C13; timeout=400; uses=any_tiny
#[cfg_attr(kani, kani::proof)]
#[cfg_attr(kani, kani::unwind(6))]
pub fn k_c13_add_sub_mul() {
    let a = [any_tiny(), any_tiny(), any_tiny()];
    let b = [any_tiny(), any_tiny()];
    let s = polynom::add(&a, &b);
    vcheck!("C13.add.coefficientwise", s.len() == 3 && s[0] == a[0] + b[0] && s[1] == a[1] + b[1] && s[2] == a[2]);
    let s2 = polynom::add(&b, &a);
    vcheck!("C13.add.commutes_on_lengths", s2 == s);
    let d = polynom::sub(&a, &b);
    vcheck!("C13.sub.coefficientwise", d.len() == 3 && d[0] == a[0] - b[0] && d[1] == a[1] - b[1] && d[2] == a[2]);
    let d2 = polynom::sub(&b, &a);
    vcheck!("C13.sub.shorter_minuend", d2.len() == 3 && d2[0] == b[0] - a[0] && d2[1] == b[1] - a[1] && d2[2] == -a[2]);
    let m = polynom::mul(&a[..2], &b);
    vcheck!("C13.mul.convolution", m.len() == 3 && m[0] == a[0] * b[0] && m[1] == a[0] * b[1] + a[1] * b[0] && m[2] == a[1] * b[1]);
    let k = any_tiny();
    let ks = polynom::mul_by_scalar(&a, k);
    vcheck!("C13.mul_by_scalar.coefficientwise", ks.len() == 3 && ks[0] == a[0] * k && ks[1] == a[1] * k && ks[2] == a[2] * k);
    vreach!("C13.arith.reach");
}

//# harness: fn=polynom::mul (unequal lengths), add / sub / eval with an empty operand; label=bounded(F_17; operand lengths 3x2, 1x3, 0+3); tier=quick; props=C13; timeout=600; uses=any_tiny
#[cfg_attr(kani, kani::proof)]
#[cfg_attr(kani, kani::unwind(6))]
pub fn k_c13_arith_unequal_and_empty() {
    let a = [any_tiny(), any_tiny(), any_tiny()];
    let b = [any_tiny(), any_tiny()];
    let m = polynom::mul(&a, &b);
    vcheck!("C13.mul.convolution_3x2", m.len() == 4 && m[0] == a[0] * b[0] && m[1] == a[0] * b[1] + a[1] * b[0]
        && m[2] == a[1] * b[1] + a[2] * b[0] && m[3] == a[2] * b[1]);
    let m2 = polynom::mul(&b, &a);
    vcheck!("C13.mul.commutes_on_lengths", m2 == m);
    let c = [any_tiny()];
    let m3 = polynom::mul(&c, &a);
    vcheck!("C13.mul.by_constant_polynomial", m3.len() == 3 && m3[0] == c[0] * a[0] && m3[1] == c[0] * a[1] && m3[2] == c[0] * a[2]);
    let e: [Tiny; 0] = [];
    let s = polynom::add(&e, &a);
    vcheck!("C13.add.empty_operand", s.len() == 3 && s[0] == a[0] && s[1] == a[1] && s[2] == a[2]);
    let d = polynom::sub(&e, &a);
    vcheck!("C13.sub.empty_minuend", d.len() == 3 && d[0] == -a[0] && d[1] == -a[1] && d[2] == -a[2]);
    vcheck!("C13.eval.empty_polynomial_is_zero", polynom::eval(&e, any_tiny()) == Tiny::ZERO);
    vreach!("C13.arith2.reach");
}

//# harness: fn=polynom::degree_of, remove_leading_zeros; label=bounded(F_17; length <= 4, all values); tier=quick; props=C13; uses=any_tiny
#[cfg_attr(kani, kani::proof)]
#[cfg_attr(kani, kani::unwind(6))]
pub fn k_c13_degree_and_leading_zeros() {
    let p = [any_tiny(), any_tiny(), any_tiny(), any_tiny()];
    let d = polynom::degree_of(&p);
    let expect = if p[3].0 != 0 { 3 } else if p[2].0 != 0 { 2 } else if p[1].0 != 0 { 1 } else { 0 };
    vcheck!("C13.degree_of.index_of_last_nonzero", d == expect);
    let r = polynom::remove_leading_zeros(&p);
    let all_zero = p[0].0 == 0 && p[1].0 == 0 && p[2].0 == 0 && p[3].0 == 0;
    vcheck!("C13.remove_leading_zeros.len", r.len() == if all_zero { 0 } else { expect + 1 });
    vcheck!("C13.remove_leading_zeros.prefix", r.len() == 0 || (r[0] == p[0] && r[r.len() - 1] == p[r.len() - 1]));
    let e: [Tiny; 0] = [];
    vcheck!("C13.degree_of.empty", polynom::degree_of(&e) == 0);
    vreach!("C13.degree.reach");
}

//# harness: fn=polynom::syn_div, syn_div_in_place (x - b and x^2 - b); label=bounded(F_17; dividend of 3 / 4 coefficients); tier=quick; props=C13; timeout=400; uses=any_tiny,any_nonzero,ref_eval
#[cfg_attr(kani, kani::proof)]
#[cfg_attr(kani, kani::unwind(6))]
pub fn k_c13_syn_div() {
    // p = q * (x - b) + r, r = p(b): the quotient is exact when b is a root
    let p = [any_tiny(), any_tiny(), any_tiny()];
    let b = any_tiny();
    let q = polynom::syn_div(&p, 1, b);
    // q has the same length with a zero top coefficient; multiply back
    let rem = ref_eval(&p, b);
    vcheck!("C13.syn_div.linear.len", q.len() == 3 && q[2] == Tiny::ZERO);
    vcheck!("C13.syn_div.linear.identity",
        p[2] == q[1] && p[1] == q[0] - q[1] * b && p[0] == rem - q[0] * b);
    // divisor x^2 - b on 4 coefficients: p = q * (x^2 - b) + (r0 + r1 x)
    let p4 = [any_tiny(), any_tiny(), Tiny::new(3), Tiny::ONE];
    let q2 = polynom::syn_div(&p4, 2, b);
    vcheck!("C13.syn_div.quadratic.identity", q2.len() == 4 && q2[2] == Tiny::ZERO && q2[3] == Tiny::ZERO
        && q2[1] == p4[3] && q2[0] == p4[2]);
    vreach!("C13.syn_div.reach");
}

//# harness: fn=polynom::div (degree pattern 2 by 1, leading coefficients non-zero); label=bounded(F_17; 3 by 2 coefficients); tier=quick; props=C13; timeout=400; uses=any_tiny,any_nonzero
#[cfg_attr(kani, kani::proof)]
#[cfg_attr(kani, kani::unwind(6))]
pub fn k_c13_div() {
    let a = [any_tiny(), any_tiny(), Tiny::ONE];
    let b = [any_tiny(), any_nonzero()];
    let q = polynom::div(&a, &b);
    // a = q * b + r with deg r < deg b = 1: compare the two top coefficients
    vcheck!("C13.div.quotient_len", q.len() == 2);
    vcheck!("C13.div.euclid_top", q[1] * b[1] == a[2] && q[0] * b[1] + q[1] * b[0] == a[1]);
    vreach!("C13.div.reach");
}

// the same division with operands whose slices are longer than degree + 1 (trailing zero coefficients are
// allowed by the documentation: the degree is that of the highest non-zero coefficient)
//# harness: fn=polynom::div (operands padded with trailing zero coefficients; constant divisor); label=bounded(F_17; 4 by 3 coefficients of degrees 2 by 1, and 3 by 2 coefficients of degrees 2 by 0); tier=quick; props=C13; timeout=600; uses=any_tiny,any_nonzero
#[cfg_attr(kani, kani::proof)]
#[cfg_attr(kani, kani::unwind(6))]
pub fn k_c13_div_padded() {
    let a = [any_tiny(), any_tiny(), Tiny::ONE, Tiny::ZERO];
    let b = [any_tiny(), any_nonzero(), Tiny::ZERO];
    let q = polynom::div(&a, &b);
    vcheck!("C13.div.padded.quotient_len", q.len() == 2);
    vcheck!("C13.div.padded.euclid_top", q[1] * b[1] == a[2] && q[0] * b[1] + q[1] * b[0] == a[1]);
    // division by a non-zero constant stored with a trailing zero: every coefficient is divided by it
    let c = [any_nonzero(), Tiny::ZERO];
    let a3 = [any_tiny(), any_tiny(), Tiny::ONE];
    let q3 = polynom::div(&a3, &c);
    vcheck!("C13.div.padded.constant_divisor", q3.len() == 3 && q3[0] * c[0] == a3[0] && q3[1] * c[0] == a3[1] && q3[2] * c[0] == a3[2]);
    vreach!("C13.div.padded.reach");
}

//# harness: fn=polynom::poly_from_roots, interpolate, syn_div_roots_in_place; label=bounded(F_17; 2 roots / 2 points); tier=quick; props=C13; timeout=600; uses=any_tiny,ref_eval
#[cfg_attr(kani, kani::proof)]
#[cfg_attr(kani, kani::unwind(6))]
pub fn k_c13_roots_and_interpolation() {
    let (r0, r1) = (any_tiny(), any_tiny());
    let p = polynom::poly_from_roots(&[r0, r1]);
    vcheck!("C13.poly_from_roots.monic_quadratic", p.len() == 3 && p[2] == Tiny::ONE
        && p[1] == -(r0 + r1) && p[0] == r0 * r1);
    // Lagrange interpolation through two points with distinct x
    let (y0, y1) = (any_tiny(), any_tiny());
    if r0 != r1 {
        let l = polynom::interpolate(&[r0, r1], &[y0, y1], false);
        vcheck!("C13.interpolate.passes_through_points", l.len() == 2 && ref_eval(&l, r0) == y0 && ref_eval(&l, r1) == y1);
    }
    // dividing the product by its linear factors leaves the cofactor
    let c = any_tiny();
    let mut prod = [c * p[0], c * p[1], c * p[2]];
    polynom::syn_div_roots_in_place(&mut prod, &[r0, r1]);
    vcheck!("C13.syn_div_roots.cofactor", prod[0] == c && prod[1] == Tiny::ZERO && prod[2] == Tiny::ZERO);
    vreach!("C13.roots.reach");
}

// ------------------------------------------------------------------------------------------------
// C14

//# harness: fn=batch_inversion (serial_batch_inversion); label=bounded(F_17; 4 elements, zeros anywhere); tier=quick; props=C14; timeout=400; uses=any_tiny
#[cfg_attr(kani, kani::proof)]
#[cfg_attr(kani, kani::unwind(8))]
pub fn k_c14_batch_inversion() {
    let v = [any_tiny(), any_tiny(), any_tiny(), any_tiny()];
    let r = batch_inversion(&v);
    vcheck!("C14.batch_inversion.len", r.len() == 4);
    let mut i = 0;
    while i < 4 {
        if v[i] == Tiny::ZERO {
            vcheck!("C14.batch_inversion.zero_maps_to_zero", r[i] == Tiny::ZERO);
        } else {
            vcheck!("C14.batch_inversion.inverse", v[i] * r[i] == Tiny::ONE);
        }
        i += 1;
    }
    let e: [Tiny; 0] = [];
    vcheck!("C14.batch_inversion.empty", batch_inversion(&e).len() == 0);
    vreach!("C14.batch_inversion.reach");
}

//# harness: fn=get_power_series, get_power_series_with_offset, add_in_place, mul_acc; label=bounded(F_17; series of 6, vectors of 3); tier=quick; props=C14; timeout=400; uses=any_tiny,pw
#[cfg_attr(kani, kani::proof)]
#[cfg_attr(kani, kani::unwind(10))]
pub fn k_c14_power_series_and_accumulate() {
    let b = any_tiny();
    let s = any_tiny();
    let ps = get_power_series(b, 6);
    let po = get_power_series_with_offset(b, s, 6);
    vcheck!("C14.power_series.len", ps.len() == 6 && po.len() == 6);
    let mut i = 0;
    while i < 6 {
        vcheck!("C14.power_series.successive_powers", ps[i] == pw(b, i));
        vcheck!("C14.power_series_with_offset.successive_powers", po[i] == s * pw(b, i));
        i += 1;
    }
    let mut a = [any_tiny(), any_tiny(), any_tiny()];
    let a0 = a;
    let c = [any_tiny(), Tiny::new(5), Tiny::new(16)];
    add_in_place(&mut a, &c);
    vcheck!("C14.add_in_place.elementwise", a[0] == a0[0] + c[0] && a[1] == a0[1] + c[1] && a[2] == a0[2] + c[2]);
    let k = any_tiny();
    let mut m = a0;
    mul_acc(&mut m, &c, k);
    vcheck!("C14.mul_acc.elementwise", m[0] == a0[0] + c[0] * k && m[1] == a0[1] + c[1] * k && m[2] == a0[2] + c[2] * k);
    vreach!("C14.series.reach");
}

// ------------------------------------------------------------------------------------------------
// C12

//# harness: fn=fft::evaluate_poly, fft::get_twiddles, fft::interpolate_poly, get_inv_twiddles (n = 4); label=bounded(F_17; n = 4, all 4 coefficients symbolic); tier=quick; props=C12; timeout=600; uses=any_tiny,ref_eval
#[cfg_attr(kani, kani::proof)]
#[cfg_attr(kani, kani::unwind(10))]
pub fn k_c12_fft_size4() {
    let coeffs = [any_tiny(), any_tiny(), any_tiny(), any_tiny()];
    let mut p = coeffs.to_vec();
    let twiddles = fft::get_twiddles::<Tiny>(4);
    fft::evaluate_poly(&mut p, &twiddles);
    let g = Tiny::get_root_of_unity(2);
    let mut x = Tiny::ONE;
    let mut i = 0;
    while i < 4 {
        vcheck!("C12.fft.evaluate_equals_naive_evaluation", p[i] == ref_eval(&coeffs, x));
        x = x * g;
        i += 1;
    }
    let inv = fft::get_inv_twiddles::<Tiny>(4);
    fft::interpolate_poly(&mut p, &inv);
    vcheck!("C12.fft.interpolate_inverts_evaluate", p[0] == coeffs[0] && p[1] == coeffs[1] && p[2] == coeffs[2] && p[3] == coeffs[3]);
    vreach!("C12.fft4.reach");
}

//# harness: fn=fft::evaluate_poly_with_offset (n = 4, blowup 2), fft::infer_degree; label=bounded(F_17; degree < 4 polynomial on the 8-point coset, offset symbolic); tier=quick; props=C12; timeout=900; uses=any_tiny,any_nonzero,ref_eval
#[cfg_attr(kani, kani::proof)]
#[cfg_attr(kani, kani::unwind(12))]
pub fn k_c12_fft_offset_blowup2() {
    let coeffs = [any_tiny(), any_tiny(), any_tiny(), any_tiny()];
    let offset = any_nonzero();
    let twiddles = fft::get_twiddles::<Tiny>(4);
    let ev = fft::evaluate_poly_with_offset(&coeffs, &twiddles, offset, 2);
    let g = Tiny::get_root_of_unity(3);
    vcheck!("C12.fft.offset.len", ev.len() == 8);
    let mut x = offset;
    let mut i = 0;
    while i < 8 {
        vcheck!("C12.fft.offset.evaluate_equals_naive_evaluation", ev[i] == ref_eval(&coeffs, x));
        x = x * g;
        i += 1;
    }
    vreach!("C12.fft_offset.reach");
}

/// interpolation over the coset offset * <g> inverts naive evaluation over it, for a domain of N points
fn interpolate_with_offset_inverts<const N: usize>(log_n: u32) {
    let mut coeffs = [Tiny::ZERO; N];
    let mut i = 0;
    while i < N {
        coeffs[i] = any_tiny();
        i += 1;
    }
    let offset = any_nonzero();
    let g = Tiny::get_root_of_unity(log_n);
    let mut ev = Vec::new();
    let mut x = offset;
    i = 0;
    while i < N {
        ev.push(ref_eval(&coeffs, x));
        x = x * g;
        i += 1;
    }
    let inv = fft::get_inv_twiddles::<Tiny>(N);
    fft::interpolate_poly_with_offset(&mut ev, &inv, offset);
    let mut ok = true;
    i = 0;
    while i < N {
        ok = ok && ev[i] == coeffs[i];
        i += 1;
    }
    vcheck!("C12.fft.interpolate_with_offset_inverts_evaluation", ok);
}

//# harness: fn=fft::interpolate_poly_with_offset (n = 2, the smallest domain); label=bounded(F_17; n = 2, coefficients and offset symbolic); tier=quick; props=C12; timeout=600; uses=interpolate_with_offset_inverts,any_tiny,any_nonzero,ref_eval
#[cfg_attr(kani, kani::proof)]
#[cfg_attr(kani, kani::unwind(10))]
pub fn k_c12_fft_interpolate_offset_n2() {
    interpolate_with_offset_inverts::<2>(1);
    vreach!("C12.fft_interp_offset.2.reach");
}

//# harness: fn=fft::interpolate_poly_with_offset (n = 4); label=bounded(F_17; n = 4, coefficients and offset symbolic); tier=quick; props=C12; timeout=1500; uses=interpolate_with_offset_inverts,any_tiny,any_nonzero,ref_eval
#[cfg_attr(kani, kani::proof)]
#[cfg_attr(kani, kani::unwind(10))]
pub fn k_c12_fft_interpolate_offset_n4() {
    interpolate_with_offset_inverts::<4>(2);
    vreach!("C12.fft_interp_offset.4.reach");
}

//# harness: fn=fft::evaluate_poly, interpolate_poly (n = 2, the smallest domain); label=bounded(F_17; n = 2, coefficients symbolic); tier=quick; props=C12; timeout=600; uses=any_tiny,ref_eval
#[cfg_attr(kani, kani::proof)]
#[cfg_attr(kani, kani::unwind(10))]
pub fn k_c12_fft_size2() {
    let coeffs = [any_tiny(), any_tiny()];
    let mut p = coeffs.to_vec();
    let twiddles = fft::get_twiddles::<Tiny>(2);
    fft::evaluate_poly(&mut p, &twiddles);
    vcheck!("C12.fft.size2.evaluate_equals_naive_evaluation", p[0] == ref_eval(&coeffs, Tiny::ONE) && p[1] == ref_eval(&coeffs, Tiny::get_root_of_unity(1)));
    let inv = fft::get_inv_twiddles::<Tiny>(2);
    fft::interpolate_poly(&mut p, &inv);
    vcheck!("C12.fft.size2.interpolate_inverts_evaluate", p[0] == coeffs[0] && p[1] == coeffs[1]);
    vreach!("C12.fft2.reach");
}

//# harness: fn=fft::permute_index, fft::get_twiddles (bit-reversed power series); label=complete in index for sizes 2..=2^16 (permute_index); closed for twiddles of size 8; tier=quick; props=C12
#[cfg_attr(kani, kani::proof)]
#[cfg_attr(kani, kani::unwind(10))]
pub fn k_c12_permute_index_and_twiddles() {
    let ls = vs::any_u32();
    vs::assume(ls >= 1 && ls <= 16);
    let size = 1usize << ls;
    let i = vs::any_usize();
    vs::assume(i < size);
    let j = fft::permute_index(size, i);
    vcheck!("C12.permute_index.in_range", j < size);
    vcheck!("C12.permute_index.involution", fft::permute_index(size, j) == i);
    vcheck!("C12.permute_index.bit_reversal", j == (i.reverse_bits() >> (usize::BITS - ls)));
    let tw = fft::get_twiddles::<Tiny>(8);
    let g = Tiny::get_root_of_unity(3);
    vcheck!("C12.twiddles.bit_reversed_powers", tw.len() == 4 && tw[0] == Tiny::ONE && tw[1] == g * g && tw[2] == g && tw[3] == g * g * g);
    vreach!("C12.permute.reach");
}
