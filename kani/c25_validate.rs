//# unit: c25_validate
//# crate: verifier
//# mount: verifier/src/lib.rs
//# modpath:
//# props: C25
//! C25 — AcceptableOptions::validate accepts a proof exactly when the computed conjectured security
//! meets the requested minimum, or when the proof's options are in the accepted set.
#![allow(unused_imports, dead_code)]
use alloc::vec::Vec;

use air::{proof::Context, BatchingMethod, TraceInfo};
use crypto::hashers::Blake3_256;
use math::fields::f64::BaseElement as F64;
use utils::{vcheck, vreach, verif_support as vs};

use super::*;

type H = Blake3_256<F64>;

fn any_options() -> ProofOptions {
    let nq = vs::any_usize();
    let bl = vs::any_u8();
    let g = vs::any_u32();
    let e = vs::any_u8();
    vs::assume(nq >= 1 && nq <= 255 && bl >= 1 && bl <= 7 && g <= 32 && e <= 2);
    let ext = match e {
        0 => FieldExtension::None,
        1 => FieldExtension::Quadratic,
        _ => FieldExtension::Cubic,
    };
    ProofOptions::new(nq, 1usize << bl, g, ext, 4, 31, BatchingMethod::Linear, BatchingMethod::Linear)
}

//# harness: fn=AcceptableOptions::validate (MinConjecturedSecurity, OptionSet), Proof::conjectured_security; label=complete in queries, blowup, grinding, extension, requested minimum; tier=quick; timeout=400
#[cfg_attr(kani, kani::proof)]
#[cfg_attr(kani, kani::unwind(10))]
#[cfg_attr(kani, kani::stub(alloc::fmt::format, vs::fake_format))]
pub fn k_c25_validate_iff() {
    let o = any_options();
    let mut proof = Proof::new_dummy();
    proof.context = Context::new::<F64>(TraceInfo::new(1, 8), o.clone(), 1);
    let min = vs::any_u32();
    let expected = proof.conjectured_security::<H>().bits() >= min;
    let got = AcceptableOptions::MinConjecturedSecurity(min).validate::<H>(&proof).is_ok();
    vcheck!("C25.validate.min_conjectured.iff", got == expected);
    // option set: accepted exactly when the proof's options are a member
    let other = any_options();
    let set = AcceptableOptions::OptionSet(alloc::vec![other.clone()]);
    vcheck!("C25.validate.option_set.iff", set.validate::<H>(&proof).is_ok() == (other == o));
    vreach!("C25.validate.reach");
}
