//# unit: c28_rowhash_verifier
//# crate: verifier
//# mount: verifier/src/channel.rs
//# modpath: channel
//# assets: mocks
//# props: C28 C01
//! C28 / C01 (verifier side) — the verifier's private `hash_row` follows the shared row-digest rule
//! `crypto::verif_mocks::rowhash_spec`; the prover side (`RowMatrix::commit_to_rows`) is checked
//! against the same specification in unit c28_rowhash_prover, so both compute the same digest for
//! every hash function.
#![allow(unused_imports, dead_code)]
use alloc::vec::Vec;

use crypto::{verif_mocks::{self as mk, RecHasher, D, DN}, Digest};
use math::fields::f64::BaseElement as F64;
use utils::{vcheck, vreach, verif_support as vs};

use super::*;

type HR = RecHasher<F64>;

fn row_of<const W: usize>() -> ([F64; W], [u8; 48]) {
    let mut row = [F64::ZERO; W];
    let mut bytes = [0u8; 48];
    let mut i = 0;
    while i < W {
        let v = vs::any_u64();
        vs::assume(v < 0xffffffff00000001);
        row[i] = F64::from_mont(v);
        bytes[8 * i..8 * i + 8].copy_from_slice(&v.to_le_bytes());
        i += 1;
    }
    (row, bytes)
}

fn hash_row_follows_rule<const W: usize>(p: usize) {
    mk::reset();
    let (row, bytes) = row_of::<W>();
    let d = hash_row::<HR, F64>(&row, p);
    let spec = mk::rowhash_spec(0, &bytes[..8 * W], 8, p);
    vcheck!("C28.rowhash.verifier.follows_rule", match spec {
        Some((next, out)) => next == mk::calls() && d.as_bytes()[..DN] == out,
        None => false,
    });
}

//# harness: fn=verifier::channel::hash_row; label=bounded(row widths 1..=6, partition sizes 1..=width; every element, any hash function); tier=quick; uses=hash_row_follows_rule,row_of; timeout=600
#[cfg_attr(kani, kani::proof)]
#[cfg_attr(kani, kani::unwind(34))]
#[cfg_attr(kani, kani::stub(alloc::fmt::format, vs::fake_format))]
pub fn k_c28_verifier_hash_row() {
    hash_row_follows_rule::<1>(1);
    hash_row_follows_rule::<4>(4);
    hash_row_follows_rule::<4>(2);
    hash_row_follows_rule::<5>(2);
    hash_row_follows_rule::<6>(4);
    hash_row_follows_rule::<3>(1);
    vreach!("C28.verifier.reach");
}
