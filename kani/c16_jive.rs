//# unit: c16_jive
//# crate: crypto
//# mount: crypto/src/hash/rescue/rp64_256_jive/mod.rs
//# modpath: hash::rescue::rp64_256_jive
//# props: C16 C17
//! C16 / C17 — RpJive64_256 compression rules (Jive mode), with `apply_permutation` replaced by a stand-in
//! that records the state it is applied to and replaces it by fresh unconstrained elements ("any
//! permutation"): `merge` loads the two digests into the 8-word state and returns, word by word,
//! initial[i] + initial[4 + i] + final[i] + final[4 + i]; `merge_with_int` loads the seed, the integer
//! (split at the modulus) and the element count in the last word, and compresses the same way; the element
//! count separates integers below the modulus from those at or above it (C17).
#![allow(unused_imports, dead_code, static_mut_refs)]
use alloc::vec::Vec;

use utils::{vcheck, vreach, verif_support as vs};

use super::*;

const ZERO_STATE: [BaseElement; STATE_WIDTH] = [BaseElement::ZERO; STATE_WIDTH];
static mut PERM_CALLS: usize = 0;
static mut SNAP: [BaseElement; STATE_WIDTH] = ZERO_STATE;
static mut FRESH: [BaseElement; STATE_WIDTH] = ZERO_STATE;

/// stands for the permutation: records its input, returns the fresh state chosen by the harness
fn rec_perm(state: &mut [BaseElement; STATE_WIDTH]) {
    unsafe {
        if PERM_CALLS == 0 {
            SNAP = *state;
        }
        PERM_CALLS += 1;
        *state = FRESH;
    }
}
/// stands for f64 `BaseElement::new`: an injective tag of the argument (a canonical residue), so that the
/// packing is checked without asking SAT to multiply (the contract of `new` is the Verus unit f64_core)
fn stub_new(value: u64) -> BaseElement {
    BaseElement::from_mont((value.rotate_left(17) ^ 0x5bd1_e995_9e37_79b9) >> 1)
}
fn any_elem() -> BaseElement {
    let a = vs::any_u64();
    vs::assume(a < 0xffffffff00000001);
    BaseElement::from_mont(a)
}
fn any_digest() -> ElementDigest {
    ElementDigest::new([any_elem(), any_elem(), any_elem(), any_elem()])
}
fn setup() -> [BaseElement; STATE_WIDTH] {
    let f = [any_elem(), any_elem(), any_elem(), any_elem(), any_elem(), any_elem(), any_elem(), any_elem()];
    unsafe {
        PERM_CALLS = 0;
        FRESH = f;
    }
    f
}
fn jive_sum_ok(d: &ElementDigest, init: &[BaseElement; STATE_WIDTH], fin: &[BaseElement; STATE_WIDTH]) -> bool {
    let e = d.as_elements();
    let mut ok = true;
    let mut i = 0;
    while i < 4 {
        ok = ok && e[i].inner() == (init[i] + init[4 + i] + fin[i] + fin[4 + i]).inner();
        i += 1;
    }
    ok
}

//# harness: fn=RpJive64_256::merge, apply_jive_summation; label=complete in both digests and the permutation output (any permutation); tier=quick; props=C16; replay=no; uses=setup,jive_sum_ok,any_digest,any_elem; timeout=600
#[cfg_attr(kani, kani::proof)]
#[cfg_attr(kani, kani::unwind(10))]
#[cfg_attr(kani, kani::stub(RpJive64_256::apply_permutation, rec_perm))]
pub fn k_c16_jive_merge() {
    let (a, b) = (any_digest(), any_digest());
    let fresh = setup();
    let d = RpJive64_256::merge(&[a, b]);
    let (ae, be) = (a.as_elements(), b.as_elements());
    let init = [ae[0], ae[1], ae[2], ae[3], be[0], be[1], be[2], be[3]];
    let s = unsafe { SNAP };
    let mut loaded = unsafe { PERM_CALLS } == 1;
    let mut i = 0;
    while i < STATE_WIDTH {
        loaded = loaded && s[i].inner() == init[i].inner();
        i += 1;
    }
    vcheck!("C16.jive.merge.state_is_the_two_digests", loaded);
    vcheck!("C16.jive.merge.jive_summation", jive_sum_ok(&d, &init, &fresh));
    vreach!("C16.jive.merge.reach");
}

//# harness: fn=RpJive64_256::merge_with_int; label=complete in the seed digest, the integer and the permutation output; tier=quick; props=C16,C17; replay=no; uses=setup,jive_sum_ok,any_digest,any_elem; timeout=600
#[cfg_attr(kani, kani::proof)]
#[cfg_attr(kani, kani::unwind(10))]
#[cfg_attr(kani, kani::stub(RpJive64_256::apply_permutation, rec_perm))]
#[cfg_attr(kani, kani::stub(winter_math::fields::f64::BaseElement::new, stub_new))]
pub fn k_c16_jive_merge_with_int() {
    let a = any_digest();
    let v = vs::any_u64();
    let fresh = setup();
    let d = RpJive64_256::merge_with_int(a, v);
    let ae = a.as_elements();
    let s = unsafe { SNAP };
    let m = 0xffffffff00000001u64;
    vcheck!("C16.jive.merge_with_int.seed_in_first_half", unsafe { PERM_CALLS } == 1
        && s[0].inner() == ae[0].inner() && s[1].inner() == ae[1].inner() && s[2].inner() == ae[2].inner() && s[3].inner() == ae[3].inner());
    vcheck!("C16.jive.merge_with_int.value_word", s[4].inner() == BaseElement::new(v).inner());
    vcheck!("C16.jive.merge_with_int.split_at_modulus",
        if v < m { s[5].inner() == 0 && s[7].inner() == BaseElement::new(5).inner() }
        else { s[5].inner() == BaseElement::new(v / m).inner() && s[7].inner() == BaseElement::new(6).inner() });
    vcheck!("C16.jive.merge_with_int.rest_zero", s[6].inner() == 0);
    vcheck!("C16.jive.merge_with_int.jive_summation", jive_sum_ok(&d, &s, &fresh));
    // C17: x < p and x + k*p (k >= 1) are separated by the element-count word
    vcheck!("C17.jive.merge_with_int.separates_congruent_integers",
        BaseElement::new(5).inner() != BaseElement::new(6).inner()
            && (v < m) == (s[7].inner() == BaseElement::new(5).inner())
            && (v >= m) == (s[7].inner() == BaseElement::new(6).inner()));
    vreach!("C16.jive.merge_with_int.reach");
}
