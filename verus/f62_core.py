"""Verus unit: f62 core — real text of add, sub, mul, normalize, BaseElement::new, as_int and the
operator impls, against exact modular contracts with the lazy-reduction invariant inner < 2M."""

F = "math/src/field/f62/mod.rs"

PRELUDE = r'''
pub open spec fn R() -> int { 0x1_0000_0000_0000_0000 }
pub open spec fn P() -> int { 4611624995532046337 }
pub open spec fn INV() -> int { 1152890993361043456 }
pub open spec fn wfv(x: u64) -> bool { (x as int) < 2 * P() }

// (zl + q*M) is a multiple of 2^64 when q = zl*U mod 2^64  (U = -M^{-1} mod 2^64)
proof fn lemma_mont_q(zl: u64, q: u64)
    requires q == ((zl as u128 * 4611624995532046335u128) as u64),
    ensures (zl as int + q as int * P()) % R() == 0
{
    assert(zl.wrapping_add(q.wrapping_mul(4611624995532046337u64)) == 0u64) by (bit_vector)
        requires q == ((zl as u128 * 4611624995532046335u128) as u64);
    let qm = q as int * P();
    assert(q.wrapping_mul(4611624995532046337u64) as int == qm % R()) by {
        assert(q as int * 4611624995532046337u64 as int == qm);
    }
    let w = q.wrapping_mul(4611624995532046337u64) as int;
    assert(zl.wrapping_add(q.wrapping_mul(4611624995532046337u64)) as int == (zl as int + w) % R());
    assert((zl as int + qm) % R() == 0) by {
        vstd::arithmetic::div_mod::lemma_add_mod_noop_right(zl as int, qm, R());
    }
}

// pure integer lemma: the reduction step
proof fn lemma_mont_step(z0: int, q: int, r: int)
    requires
        0 <= z0 < P() * R(),
        0 <= q < R(),
        (z0 + q * P()) % R() == 0,
        r == (z0 + q * P()) / R(),
    ensures
        0 <= r < 2 * P(),
        (r * R()) % P() == z0 % P(),
{
    let t = z0 + q * P();
    assert(t == r * R()) by {
        vstd::arithmetic::div_mod::lemma_fundamental_div_mod(t, R());
    }
    assert(q * P() <= (R() - 1) * P()) by (nonlinear_arith) requires 0 <= q < R(), P() > 0;
    assert(t < 2 * P() * R()) by (nonlinear_arith)
        requires t == z0 + q * P(), z0 < P() * R(), q * P() <= (R() - 1) * P(), P() > 0;
    assert(r < 2 * P()) by (nonlinear_arith) requires t == r * R(), t < 2 * P() * R(), R() > 0;
    assert(0 <= r) by (nonlinear_arith) requires t == r * R(), t >= 0, R() > 0;
    assert((z0 + q * P()) % P() == z0 % P()) by {
        vstd::arithmetic::div_mod::lemma_mod_multiples_vanish(q, z0, P());
    }
}

// products of lazily reduced operands stay below P*R   (4M < 2^64)
pub proof fn lemma_prod_bound(a: int, b: int)
    requires 0 <= a < 2 * P(), 0 <= b < 2 * P(),
    ensures 0 <= a * b < P() * R(),
{
    assert(a * b <= (2 * P() - 1) * (2 * P() - 1)) by (nonlinear_arith)
        requires 0 <= a <= 2 * P() - 1, 0 <= b <= 2 * P() - 1;
    assert((2 * P() - 1) * (2 * P() - 1) < P() * R()) by (compute);
    assert(0 <= a * b) by (nonlinear_arith) requires 0 <= a, 0 <= b;
}

proof fn lemma_times_one(a: int)
    requires 0 <= a < P(), (R() * INV()) % P() == 1,
    ensures (a * (R() * INV())) % P() == a,
{
    vstd::arithmetic::div_mod::lemma_mul_mod_noop_right(a, R() * INV(), P());
    assert((a * 1) % P() == a) by { vstd::arithmetic::div_mod::lemma_small_mod(a as nat, P() as nat); }
}
// 2^64 is invertible modulo M: cancel it
proof fn lemma_cancel_r(a: int, b: int)
    requires (a * R()) % P() == (b * R()) % P(), 0 <= a < P(), 0 <= b < P(),
    ensures a == b,
{
    assert((R() * INV()) % P() == 1) by (compute);
    lemma_times_one(a); lemma_times_one(b);
    assert(((a * R()) * INV()) % P() == ((b * R()) * INV()) % P()) by {
        vstd::arithmetic::div_mod::lemma_mul_mod_noop_left(a * R(), INV(), P());
        vstd::arithmetic::div_mod::lemma_mul_mod_noop_left(b * R(), INV(), P());
    }
    assert((a * R()) * INV() == a * (R() * INV())) by (nonlinear_arith);
    assert((b * R()) * INV() == b * (R() * INV())) by (nonlinear_arith);
}
'''

OPS_SPECS = r"""
impl Copy for BaseElement {}
impl Clone for BaseElement { fn clone(&self) -> Self { *self } }
pub open spec fn wf(e: BaseElement) -> bool { (e.0 as int) < 2 * P() }
// the field element an internal value stands for: inner * 2^-64 mod p (Montgomery form)
pub open spec fn vali(x: int) -> int { (x * INV()) % P() }
pub open spec fn val(e: BaseElement) -> int { vali(e.0 as int) }

pub proof fn lemma_vali_congruent(x: int, y: int)
    requires x % P() == y % P(),
    ensures vali(x) == vali(y),
{
    vstd::arithmetic::div_mod::lemma_mul_mod_noop_left(x, INV(), P());
    vstd::arithmetic::div_mod::lemma_mul_mod_noop_left(y, INV(), P());
}
pub proof fn lemma_val_add_forall(a: int, b: int)
    ensures forall|r: int| #![trigger vali(r)] r % P() == (a + b) % P() ==> vali(r) == (vali(a) + vali(b)) % P(),
{
    assert forall|r: int| #![trigger vali(r)] r % P() == (a + b) % P() implies vali(r) == (vali(a) + vali(b)) % P() by {
        lemma_vali_congruent(r, a + b);
        assert((a + b) * INV() == a * INV() + b * INV()) by (nonlinear_arith);
        vstd::arithmetic::div_mod::lemma_add_mod_noop(a * INV(), b * INV(), P());
    }
}
pub proof fn lemma_val_sub_forall(a: int, b: int)
    ensures forall|r: int| #![trigger vali(r)] r % P() == (a - b) % P() ==> vali(r) == (vali(a) - vali(b)) % P(),
{
    assert forall|r: int| #![trigger vali(r)] r % P() == (a - b) % P() implies vali(r) == (vali(a) - vali(b)) % P() by {
        lemma_vali_congruent(r, a - b);
        assert((a - b) * INV() == a * INV() - b * INV()) by (nonlinear_arith);
        vstd::arithmetic::div_mod::lemma_sub_mod_noop(a * INV(), b * INV(), P());
    }
}
pub proof fn lemma_val_mul_forall(a: int, b: int)
    ensures forall|r: int| #![trigger vali(r)] (r * R()) % P() == (a * b) % P() ==> vali(r) == (vali(a) * vali(b)) % P(),
{
    assert forall|r: int| #![trigger vali(r)] (r * R()) % P() == (a * b) % P() implies vali(r) == (vali(a) * vali(b)) % P() by {
        let x = a * b;
        let y = r * R();
        // x * INV * INV == y * INV * INV (mod P)
        vstd::arithmetic::div_mod::lemma_mul_mod_noop_left(x, INV() * INV(), P());
        vstd::arithmetic::div_mod::lemma_mul_mod_noop_left(y, INV() * INV(), P());
        // y * INV * INV == (r * INV) * (R * INV) == r * INV (mod P)
        assert(y * (INV() * INV()) == (r * INV()) * (R() * INV())) by (nonlinear_arith) requires y == r * R();
        assert((R() * INV()) % P() == 1) by (compute);
        vstd::arithmetic::div_mod::lemma_mul_mod_noop_right(r * INV(), R() * INV(), P());
        assert(((r * INV()) * 1) % P() == vali(r));
        // vali(a) * vali(b) == (a * INV) * (b * INV) == x * INV * INV (mod P)
        vstd::arithmetic::div_mod::lemma_mul_mod_noop(a * INV(), b * INV(), P());
        assert((a * INV()) * (b * INV()) == x * (INV() * INV())) by (nonlinear_arith) requires x == a * b;
    }
}

impl vstd::std_specs::ops::AddSpecImpl<BaseElement> for BaseElement {
    open spec fn obeys_add_spec() -> bool { false }
    open spec fn add_req(self, rhs: BaseElement) -> bool { wf(self) && wf(rhs) }
    open spec fn add_spec(self, rhs: BaseElement) -> BaseElement { arbitrary() }
}
impl vstd::std_specs::ops::SubSpecImpl<BaseElement> for BaseElement {
    open spec fn obeys_sub_spec() -> bool { false }
    open spec fn sub_req(self, rhs: BaseElement) -> bool { wf(self) && wf(rhs) }
    open spec fn sub_spec(self, rhs: BaseElement) -> BaseElement { arbitrary() }
}
impl vstd::std_specs::ops::MulSpecImpl<BaseElement> for BaseElement {
    open spec fn obeys_mul_spec() -> bool { false }
    open spec fn mul_req(self, rhs: BaseElement) -> bool { wf(self) && wf(rhs) }
    open spec fn mul_spec(self, rhs: BaseElement) -> BaseElement { arbitrary() }
}
// reduced declaration of math/src/field/traits.rs `StarkField` (signature of the one method under contract)
pub trait StarkField: Sized {
    type PositiveInteger;
    spec fn wf_t(&self) -> bool;
    fn as_int(&self) -> (r: Self::PositiveInteger)
        requires self.wf_t();
}
// reduced declaration of math/src/field/traits.rs `FieldElement` (the method under contract)
pub trait FieldElement: Sized {
    spec fn wf_e(self) -> bool;
    fn double(self) -> (r: Self)
        requires self.wf_e();
}
// reduced declaration of math/src/field/traits.rs `ExtensibleField<N>` (the methods under contract)
pub trait ExtensibleField<const N: usize>: Sized {
    spec fn wf_x(a: [Self; N]) -> bool;
    spec fn wf_b(b: Self) -> bool;
    fn mul(a: [Self; N], b: [Self; N]) -> (r: [Self; N])
        requires Self::wf_x(a), Self::wf_x(b);
    fn mul_base(a: [Self; N], b: Self) -> (r: [Self; N])
        requires Self::wf_x(a), Self::wf_b(b);
    fn frobenius(x: [Self; N]) -> (r: [Self; N])
        requires Self::wf_x(x);
}
impl vstd::std_specs::ops::NegSpecImpl for BaseElement {
    open spec fn obeys_neg_spec() -> bool { false }
    open spec fn neg_req(self) -> bool { wf(self) }
    open spec fn neg_spec(self) -> BaseElement { arbitrary() }
}
"""

GH_MUL_0 = r'''
    proof {
        assert(0 <= (a as int) * (b as int)) by (nonlinear_arith) requires 0 <= a as int, 0 <= b as int;
    }
'''
GH_MUL_1 = r'''
    let ghost z0 = z;
'''
GH_MUL_2 = r'''
    proof {
        assert(0 <= (q as int) * P() <= 0xffff_ffff_ffff_ffff * P()) by (nonlinear_arith)
            requires 0 <= q <= 0xffff_ffff_ffff_ffff;
        assert(P() * R() + 0xffff_ffff_ffff_ffff * P() < 0x1_0000_0000_0000_0000_0000_0000_0000_0000) by (compute);
        assert(U == 4611624995532046335u128 && M == 4611624995532046337u64);
    }
'''
GH_MUL_3 = r'''
    proof {
        let zl = (z0 as u64);
        lemma_mont_q(zl, q);
        assert(z0 as int % R() == zl as int) by (bit_vector) requires zl == (z0 as u64);
        let qm = q as int * P();
        assert((z0 as int + qm) % R() == 0) by {
            vstd::arithmetic::div_mod::lemma_add_mod_noop(z0 as int, qm, R());
            vstd::arithmetic::div_mod::lemma_add_mod_noop(zl as int, qm, R());
            vstd::arithmetic::div_mod::lemma_small_mod(zl as nat, R() as nat);
        }
        assert((z >> 64) as int == z as int / R()) by (bit_vector);
        lemma_mont_step(z0 as int, q as int, (z as int) / R());
    }
'''

EXT2_EXTRA = r"""
    open spec fn wf_x(a: [BaseElement; 2]) -> bool { wf(a[0]) && wf(a[1]) }
    open spec fn wf_b(b: BaseElement) -> bool { wf(b) }
"""
EXT2_MUL_PROOF = r"""
        proof {
            let (a0, a1, b0, b1) = (val(a[0]), val(a[1]), val(b[0]), val(b[1]));
            vstd::arithmetic::div_mod::lemma_add_mod_noop(a0 * b0, a1 * b1, P());
            vstd::arithmetic::div_mod::lemma_mul_mod_noop(a0 + a1, b0 + b1, P());
            vstd::arithmetic::div_mod::lemma_sub_mod_noop((a0 + a1) * (b0 + b1), a0 * b0, P());
            assert((a0 + a1) * (b0 + b1) - a0 * b0 == a0 * b1 + a1 * b0 + a1 * b1) by (nonlinear_arith);
        }"""

EXT3_EXTRA = r"""
    open spec fn wf_x(a: [BaseElement; 3]) -> bool { wf(a[0]) && wf(a[1]) && wf(a[2]) }
    open spec fn wf_b(b: BaseElement) -> bool { wf(b) }
"""
EXT3_MUL_PROOF = r"""
        proof {
            use vstd::arithmetic::div_mod::*;
            let (a0, a1, a2, b0, b1, b2) = (val(a[0]), val(a[1]), val(a[2]), val(b[0]), val(b[1]), val(b[2]));
            let (e00, e11, e22) = (a0 * b0, a1 * b1, a2 * b2);
            let m01 = (a0 + a1) * (b0 + b1);
            let n02 = (a0 - a2) * (b2 - b0);
            let n12 = (a1 - a2) * (b1 - b2);
            // expand the products once; afterwards every identity is linear in the a_i * b_j
            assert(m01 == a0 * b0 + a0 * b1 + a1 * b0 + a1 * b1) by (nonlinear_arith) requires m01 == (a0 + a1) * (b0 + b1);
            assert(n02 == a0 * b2 - a0 * b0 - a2 * b2 + a2 * b0) by (nonlinear_arith) requires n02 == (a0 - a2) * (b2 - b0);
            assert(n12 == a1 * b1 - a1 * b2 - a2 * b1 + a2 * b2) by (nonlinear_arith) requires n12 == (a1 - a2) * (b1 - b2);
            // products of sums / differences
            lemma_mul_mod_noop(a0 + a1, b0 + b1, P());
            lemma_mul_mod_noop(a0 - a2, b2 - b0, P());
            lemma_mul_mod_noop(a1 - a2, b1 - b2, P());
            // s = a0b0 + a1b1
            lemma_add_mod_noop(e00, e11, P());
            // d = 2 * (n12 - e11 - e22)
            lemma_sub_mod_noop(n12, e11, P());
            lemma_sub_mod_noop(n12 - e11, e22, P());
            lemma_mul_mod_noop_right(2, n12 - e11 - e22, P());
            let d = 2 * (n12 - e11 - e22);
            // r0 = e00 + d
            lemma_add_mod_noop(e00, d, P());
            assert(e00 + d == a0 * b0 - 2 * (a1 * b2 + a2 * b1));
            // r1 = m01 + d - 2 e22 - (e00 + e11)
            lemma_add_mod_noop(m01, d, P());
            lemma_mul_mod_noop_right(2, e22, P());
            lemma_sub_mod_noop(m01 + d, 2 * e22, P());
            lemma_sub_mod_noop(m01 + d - 2 * e22, e00 + e11, P());
            assert(m01 + d - 2 * e22 - (e00 + e11) == a0 * b1 + a1 * b0 - 2 * (a1 * b2 + a2 * b1) - 2 * (a2 * b2));
            // r2 = n02 + (e00 + e11) - e22
            lemma_add_mod_noop(n02, e00 + e11, P());
            lemma_sub_mod_noop(n02 + (e00 + e11), e22, P());
            assert(n02 + (e00 + e11) - e22 == a0 * b2 + a1 * b1 + a2 * b0 - 2 * (a2 * b2));
        }"""

EPILOGUE = r'''
// multiplication in F_p[phi] / (phi^3 + 2 phi + 2) on coefficient triples (the formulas of the ext3 mul contract)
pub open spec fn m3(a: (int, int, int), b: (int, int, int)) -> (int, int, int) {
    ((a.0 * b.0 - 2 * (a.1 * b.2 + a.2 * b.1)) % P(),
     (a.0 * b.1 + a.1 * b.0 - 2 * (a.1 * b.2 + a.2 * b.1) - 2 * (a.2 * b.2)) % P(),
     (a.0 * b.2 + a.1 * b.1 + a.2 * b.0 - 2 * (a.2 * b.2)) % P())
}
pub open spec fn pow3(b: (int, int, int), e: nat) -> (int, int, int)
    decreases e
{
    if e == 0 { (1int, 0int, 0int) } else if e % 2 == 0 { let h = pow3(b, e / 2); m3(h, h) } else { m3(b, pow3(b, (e - 1) as nat)) }
}
// the cubic Frobenius constants: phi^p = (FA, FC, FE), phi^(2p) = (FB, FD, FF)
pub open spec fn FA() -> int { 2061766055618274781 }
pub open spec fn FB() -> int { 786836585661389001 }
pub open spec fn FC() -> int { 2868591307402993000 }
pub open spec fn FD() -> int { 3336695525575160559 }
pub open spec fn FE() -> int { 2699230790596717670 }
pub open spec fn FF() -> int { 1743033688129053336 }
// C11: the constants of the cubic Frobenius are phi^p and phi^(2p) in F_p[phi]/(phi^3 + 2 phi + 2)
proof fn thm_frobenius3_constants()
    ensures pow3((0, 1, 0), P() as nat) == (FA(), FC(), FE()),
            m3((FA(), FC(), FE()), (FA(), FC(), FE())) == (FB(), FD(), FF()),
{
    assert(pow3((0, 1, 0), P() as nat) == (FA(), FC(), FE())) by (compute);
    assert(m3((FA(), FC(), FE()), (FA(), FC(), FE())) == (FB(), FD(), FF())) by (compute);
}
// the field element new(v) stands for is v mod p
pub proof fn lemma_val_new(r0: int, v: int)
    requires (r0 * R()) % P() == (v * R2 as int) % P(),
    ensures vali(r0) == v % P(),
{
    use vstd::arithmetic::div_mod::*;
    let i = INV();
    let a = r0 * R();
    let b = v * R2 as int;
    lemma_mul_mod_noop_left(a, i * i, P());
    lemma_mul_mod_noop_left(b, i * i, P());
    assert(a * (i * i) == (r0 * i) * (R() * i)) by (nonlinear_arith) requires a == r0 * R();
    assert((R() * INV()) % P() == 1) by (compute);
    lemma_mul_mod_noop_right(r0 * i, R() * i, P());
    assert(b * (i * i) == v * (R2 as int * (i * i))) by (nonlinear_arith) requires b == v * R2 as int;
    assert((R2 as int * (INV() * INV())) % P() == 1) by (compute);
    lemma_mul_mod_noop_right(v, R2 as int * (i * i), P());
}
pub proof fn lemma_new_const(c: int)
    requires 0 <= c < P(),
    ensures forall|e: BaseElement| #![trigger val(e)] (e.0 as int * R()) % P() == (c * R2 as int) % P() ==> val(e) == c,
{
    assert forall|e: BaseElement| #![trigger val(e)] (e.0 as int * R()) % P() == (c * R2 as int) % P() implies val(e) == c by {
        lemma_val_new(e.0 as int, c);
        vstd::arithmetic::div_mod::lemma_small_mod(c as nat, P() as nat);
    }
}

proof fn thm_constants()
    ensures M as int == P(), (R2 as int) % P() == (R() * R()) % P(), (R2 as int) < P(),
            (R3 as int) % P() == (R() * R() * R()) % P(), (U as int * P()) % R() == R() - 1,
{
    assert((R2 as int) % P() == (R() * R()) % P()) by (compute);
    assert((R3 as int) % P() == (R() * R() * R()) % P()) by (compute);
    assert((U as int * P()) % R() == R() - 1) by (compute);
}

// canonical encoding: as_int(new(v)) == v for every v < M
fn thm_roundtrip(v: u64) -> (r: u64)
    requires (v as int) < P(),
    ensures r == v,
{
    let e = BaseElement::new(v);
    let r = e.as_int();
    proof {
        thm_constants();
        let e0 = e.0 as int;
        // e0 * R == v * R2 == v * R * R  (mod P)
        assert((e0 * R()) % P() == ((v as int * R()) * R()) % P()) by {
            vstd::arithmetic::div_mod::lemma_mul_mod_noop_right(v as int, R2 as int, P());
            vstd::arithmetic::div_mod::lemma_mul_mod_noop_right(v as int, R() * R(), P());
            assert(v as int * (R() * R()) == (v as int * R()) * R()) by (nonlinear_arith);
        }
        // r * R == e0 (mod P), hence (r * R) * R == (v * R) * R
        assert(((r as int * R()) * R()) % P() == ((v as int * R()) * R()) % P()) by {
            vstd::arithmetic::div_mod::lemma_mul_mod_noop_left(r as int * R(), R(), P());
            vstd::arithmetic::div_mod::lemma_mul_mod_noop_left(e0, R(), P());
        }
        let x = (r as int * R()) % P();
        let y = (v as int * R()) % P();
        assert((x * R()) % P() == (y * R()) % P()) by {
            vstd::arithmetic::div_mod::lemma_mul_mod_noop_left(r as int * R(), R(), P());
            vstd::arithmetic::div_mod::lemma_mul_mod_noop_left(v as int * R(), R(), P());
        }
        assert(0 <= x < P() && 0 <= y < P()) by {
            vstd::arithmetic::div_mod::lemma_mod_pos_bound(r as int * R(), P());
            vstd::arithmetic::div_mod::lemma_mod_pos_bound(v as int * R(), P());
        }
        lemma_cancel_r(x, y);
        lemma_cancel_r(r as int, v as int);
    }
    r
}
'''

UNIT = {
    "name": "f62_core",
    "props": ["C10", "C11"],
    "prelude": PRELUDE,
    "items": [
        {"kind": "const", "file": F, "name": "M", "pub": True},
        {"kind": "const", "file": F, "name": "R2", "pub": True},
        {"kind": "const", "file": F, "name": "R3", "pub": True},
        {"kind": "const", "file": F, "name": "U", "pub": True},
        {"kind": "struct", "file": F, "name": "BaseElement", "pubfields": True, "after": OPS_SPECS},
        {"kind": "fn", "file": F, "name": "add", "ret": "r", "fnlabel": "f62 add", "ob": "C10.f62.add.contract",
         "spec": "requires wfv(a), wfv(b),\nensures wfv(r), (r as int) % P() == (a as int + b as int) % P(),",
         "ghost": [{"at": "after", "anchor": "let z =", "text": r'''
    proof {
        assert(z >> 62 <= 3 && ((z >> 62 == 0) <==> (z < 0x4000_0000_0000_0000u64))
            && ((z >> 62 == 1) <==> (0x4000_0000_0000_0000u64 <= z < 0x8000_0000_0000_0000u64))
            && ((z >> 62 == 2) <==> (0x8000_0000_0000_0000u64 <= z < 0xc000_0000_0000_0000u64))) by (bit_vector);
        assert(z >> 62 <= 3);
        assert((z >> 62) * M <= 3 * M) by (nonlinear_arith) requires (z >> 62) <= 3, M == 4611624995532046337u64;
    }'''},
                   {"at": "after", "anchor": "let q =", "text": r'''
    proof {
        let k = (z >> 62) as int;
        assert(q as int == k * P()) by (nonlinear_arith) requires q as int == (z >> 62) as int * (M as int), M as int == P(), k == (z >> 62) as int;
        assert((z as int - k * P()) % P() == (z as int) % P()) by {
            vstd::arithmetic::div_mod::lemma_mod_multiples_vanish(-k, z as int, P());
            assert(z as int + (-k) * P() == z as int - k * P()) by (nonlinear_arith);
        }
    }'''}]},
        {"kind": "fn", "file": F, "name": "sub", "ret": "r", "fnlabel": "f62 sub", "ob": "C10.f62.sub.contract",
         "spec": "requires wfv(a), wfv(b),\nensures wfv(r), (r as int) % P() == (a as int - b as int) % P(),",
         "ghost": [{"at": "start", "text": r'''
        proof {
            assert((2 * P() - b as int + a as int) % P() == (a as int - b as int) % P()) by {
                vstd::arithmetic::div_mod::lemma_mod_multiples_vanish(2, a as int - b as int, P());
            }
        }'''}]},
        {"kind": "fn", "file": F, "name": "mul", "ret": "r", "fnlabel": "f62 mul", "ob": "C10.f62.mul.contract",
         "spec": "requires (a as int) * (b as int) < P() * R(),\nensures wfv(r), (r as int * R()) % P() == (a as int * b as int) % P(),",
         "ghost": [{"at": "start", "text": GH_MUL_0},
                   {"at": "after", "anchor": "let z =", "text": GH_MUL_1},
                   {"at": "after", "anchor": "let q =", "text": GH_MUL_2},
                   {"at": "after", "anchor": "let z =", "occ": 2, "text": GH_MUL_3}]},
        {"kind": "fn", "file": F, "name": "normalize", "ret": "r", "fnlabel": "f62 normalize", "ob": "C10.f62.normalize.contract",
         "spec": "requires wfv(value),\nensures (r as int) < P(), r as int == (value as int) % P(), (r as int * R()) % P() == (value as int * R()) % P(),",
         "ghost": [{"at": "start", "text": r'''
    proof {
        if value >= M {
            vstd::arithmetic::div_mod::lemma_mod_multiples_vanish(-1, value as int, P());
            vstd::arithmetic::div_mod::lemma_small_mod((value as int - P()) as nat, P() as nat);
        } else {
            vstd::arithmetic::div_mod::lemma_small_mod(value as nat, P() as nat);
        }
        // (value % P) * R == value * R (mod P)
        vstd::arithmetic::div_mod::lemma_mul_mod_noop_left(value as int, R(), P());
    }'''}]},
        {"kind": "impl", "file": F, "header": "impl BaseElement", "methods": [
            {"name": "new", "ret": "r", "fnlabel": "f62 BaseElement::new", "ob": "C10.f62.new.contract",
             "spec": "ensures wf(r), (r.0 as int * R()) % P() == (value as int * R2 as int) % P(),",
             "ghost": [{"at": "start", "text": r'''
        proof {
            assert((value as int) * (R2 as int) < P() * R()) by (nonlinear_arith)
                requires 0 <= value as int, (value as int) < R(), 0 <= (R2 as int), (R2 as int) < P();
        }'''}]}]},
        {"kind": "impl", "file": F, "header": "impl StarkField for BaseElement", "out_header": "impl StarkField for BaseElement",
         "extra": "type PositiveInteger = u64;\nopen spec fn wf_t(&self) -> bool { wf(*self) }\n",
         "methods": [
            {"name": "as_int", "ret": "r", "fnlabel": "f62 StarkField::as_int", "ob": "C10.f62.as_int.contract",
             "spec": "ensures (r as int) < P(), (r as int * R()) % P() == (self.0 as int) % P(),",
             "ghost": [{"at": "start", "text": r'''
        proof {
            assert((self.0 as int) * 1 < P() * R()) by (nonlinear_arith) requires (self.0 as int) < 2 * P(), 2 * P() < P() * R();
            assert(self.0 as int * 1 == self.0 as int);
        }'''}]}]},
        {"kind": "impl", "file": F, "header": "impl Add for BaseElement", "out_header": "impl core::ops::Add for BaseElement",
         "extra": "type Output = Self;\n", "methods": [
            {"name": "add", "ret": "r", "fnlabel": "f62 <BaseElement as Add>::add", "ob": "C10.f62.op_add.contract",
             "spec": "ensures wf(r), (r.0 as int) % P() == (self.0 as int + rhs.0 as int) % P(),\n    val(r) == (val(self) + val(rhs)) % P(),",
             "ghost": [{"at": "start", "text": "proof { lemma_val_add_forall(self.0 as int, rhs.0 as int); }"}]}]},
        {"kind": "impl", "file": F, "header": "impl Sub for BaseElement", "out_header": "impl core::ops::Sub for BaseElement",
         "extra": "type Output = Self;\n", "methods": [
            {"name": "sub", "ret": "r", "fnlabel": "f62 <BaseElement as Sub>::sub", "ob": "C10.f62.op_sub.contract",
             "spec": "ensures wf(r), (r.0 as int) % P() == (self.0 as int - rhs.0 as int) % P(),\n    val(r) == (val(self) - val(rhs)) % P(),",
             "ghost": [{"at": "start", "text": "proof { lemma_val_sub_forall(self.0 as int, rhs.0 as int); }"}]}]},
        {"kind": "impl", "file": F, "header": "impl Mul for BaseElement", "out_header": "impl core::ops::Mul for BaseElement",
         "extra": "type Output = Self;\n", "methods": [
            {"name": "mul", "ret": "r", "fnlabel": "f62 <BaseElement as Mul>::mul", "ob": "C10.f62.op_mul.contract",
             "spec": "ensures wf(r), (r.0 as int * R()) % P() == (self.0 as int * rhs.0 as int) % P(),\n    val(r) == (val(self) * val(rhs)) % P(),",
             "ghost": [{"at": "start", "text": "proof { lemma_prod_bound(self.0 as int, rhs.0 as int); lemma_val_mul_forall(self.0 as int, rhs.0 as int); }"}]}]},
        {"kind": "impl", "file": F, "header": "impl Neg for BaseElement", "out_header": "impl core::ops::Neg for BaseElement",
         "extra": "type Output = Self;\n", "methods": [
            {"name": "neg", "ret": "r", "fnlabel": "f62 <BaseElement as Neg>::neg", "ob": "C10.f62.op_neg.contract",
             "spec": "ensures wf(r), (r.0 as int) % P() == (0 - self.0 as int) % P(),\n    val(r) == (0 - val(self)) % P(),",
             "ghost": [{"at": "start", "text": "proof { lemma_val_sub_forall(0, self.0 as int); assert(vali(0) == 0) by (compute); }"}]}]},
        # --- quadratic extension x^2 - x - 1 over the base-operation contracts ------------------------
        {"kind": "impl", "file": F, "header": "impl ExtensibleField<2> for BaseElement", "extra": EXT2_EXTRA, "methods": [
            {"name": "mul", "ret": "r", "fnlabel": "f62 <BaseElement as ExtensibleField<2>>::mul", "ob": "C10.f62.ext2.mul.contract",
             "spec": "ensures wf(r[0]), wf(r[1]),\n"
                     "    // (a0 + a1 phi)(b0 + b1 phi) with phi^2 = phi + 1\n"
                     "    val(r[0]) == (val(a[0]) * val(b[0]) + val(a[1]) * val(b[1])) % P(),\n"
                     "    val(r[1]) == (val(a[0]) * val(b[1]) + val(a[1]) * val(b[0]) + val(a[1]) * val(b[1])) % P(),",
             "ghost": [{"at": "start", "text": EXT2_MUL_PROOF}]},
            {"name": "mul_base", "ret": "r", "fnlabel": "f62 <BaseElement as ExtensibleField<2>>::mul_base", "ob": "C10.f62.ext2.mul_base.contract",
             "spec": "ensures wf(r[0]), wf(r[1]), val(r[0]) == (val(a[0]) * val(b)) % P(), val(r[1]) == (val(a[1]) * val(b)) % P(),"},
            {"name": "frobenius", "ret": "r", "fnlabel": "f62 <BaseElement as ExtensibleField<2>>::frobenius", "ob": "C10.f62.ext2.frobenius.contract",
             "spec": "ensures wf(r[0]), wf(r[1]),\n"
                     "    // conjugation phi -> 1 - phi of x^2 - x - 1\n"
                     "    val(r[0]) == (val(x[0]) + val(x[1])) % P(), val(r[1]) == (0 - val(x[1])) % P(),"},
        ]},

        {"kind": "impl", "file": F, "header": "impl FieldElement for BaseElement",
         "extra": "open spec fn wf_e(self) -> bool { wf(self) }\n", "methods": [
            {"name": "double", "ret": "r", "fnlabel": "f62 FieldElement::double", "ob": "C10.f62.double.contract",
             "spec": "ensures wf(r), (r.0 as int) % P() == (2 * self.0 as int) % P(), val(r) == (2 * val(self)) % P(),",
             "ghost": [{"at": "start", "text": "proof { lemma_val_add_forall(self.0 as int, self.0 as int); }"},
                       {"at": "after", "anchor": "let z =", "text": r"""
        proof {
            let x = self.0;
            assert(z == 2 * x) by (bit_vector) requires z == x << 1, x < 0x8000_0000_0000_0000u64;
            assert(z >> 62 <= 3 && ((z >> 62 == 0) <==> (z < 0x4000_0000_0000_0000u64))
                && ((z >> 62 == 1) <==> (0x4000_0000_0000_0000u64 <= z < 0x8000_0000_0000_0000u64))
                && ((z >> 62 == 2) <==> (0x8000_0000_0000_0000u64 <= z < 0xc000_0000_0000_0000u64))) by (bit_vector);
            assert((z >> 62) * M <= 3 * M) by (nonlinear_arith) requires (z >> 62) <= 3, M == 4611624995532046337u64;
        }"""},
                       {"at": "after", "anchor": "let q =", "text": r"""
        proof {
            let k = (z >> 62) as int;
            assert(q as int == k * P()) by (nonlinear_arith) requires q as int == (z >> 62) as int * (M as int), M as int == P(), k == (z >> 62) as int;
            assert((z as int - k * P()) % P() == (z as int) % P()) by {
                vstd::arithmetic::div_mod::lemma_mod_multiples_vanish(-k, z as int, P());
                assert(z as int + (-k) * P() == z as int - k * P()) by (nonlinear_arith);
            }
            assert(2 * self.0 as int == self.0 as int + self.0 as int);
        }"""}]}]},
        {"kind": "impl", "file": F, "header": "impl ExtensibleField<3> for BaseElement", "extra": EXT3_EXTRA, "methods": [
            {"name": "frobenius", "ret": "r", "fnlabel": "f62 <BaseElement as ExtensibleField<3>>::frobenius", "ob": "C10.f62.ext3.frobenius.contract",
             "spec": "ensures wf(r[0]), wf(r[1]), wf(r[2]),\n"
                     "    // x0 + x1 phi^p + x2 phi^(2p) with phi^p = (FA, FC, FE), phi^(2p) = (FB, FD, FF) (thm_frobenius3_constants)\n"
                     "    val(r[0]) == (val(x[0]) + FA() * val(x[1]) + FB() * val(x[2])) % P(),\n"
                     "    val(r[1]) == (FC() * val(x[1]) + FD() * val(x[2])) % P(),\n"
                     "    val(r[2]) == (FE() * val(x[1]) + FF() * val(x[2])) % P(),",
             "ghost": [{"at": "start", "text": r"""
        proof {
            use vstd::arithmetic::div_mod::*;
            let (x0, x1, x2) = (val(x[0]), val(x[1]), val(x[2]));
            lemma_new_const(FA()); lemma_new_const(FB()); lemma_new_const(FC());
            lemma_new_const(FD()); lemma_new_const(FE()); lemma_new_const(FF());
            lemma_add_mod_noop_right(x0, FA() * x1, P());
            lemma_add_mod_noop(x0 + FA() * x1, FB() * x2, P());
            lemma_add_mod_noop(FC() * x1, FD() * x2, P());
            lemma_add_mod_noop(FE() * x1, FF() * x2, P());
        }"""}]},
            {"name": "mul", "ret": "r", "attrs": "#[verifier::rlimit(300)]\n", "fnlabel": "f62 <BaseElement as ExtensibleField<3>>::mul", "ob": "C10.f62.ext3.mul.contract",
             "spec": "ensures wf(r[0]), wf(r[1]), wf(r[2]),\n"
                     "    // (a0 + a1 phi + a2 phi^2)(b0 + b1 phi + b2 phi^2) with phi^3 = -2 phi - 2\n"
                     "    val(r[0]) == (val(a[0]) * val(b[0]) - 2 * (val(a[1]) * val(b[2]) + val(a[2]) * val(b[1]))) % P(),\n"
                     "    val(r[1]) == (val(a[0]) * val(b[1]) + val(a[1]) * val(b[0]) - 2 * (val(a[1]) * val(b[2]) + val(a[2]) * val(b[1])) - 2 * (val(a[2]) * val(b[2]))) % P(),\n"
                     "    val(r[2]) == (val(a[0]) * val(b[2]) + val(a[1]) * val(b[1]) + val(a[2]) * val(b[0]) - 2 * (val(a[2]) * val(b[2]))) % P(),",
             "ghost": [{"at": "start", "text": EXT3_MUL_PROOF}]},
            {"name": "mul_base", "ret": "r", "fnlabel": "f62 <BaseElement as ExtensibleField<3>>::mul_base", "ob": "C10.f62.ext3.mul_base.contract",
             "spec": "ensures wf(r[0]), wf(r[1]), wf(r[2]), val(r[0]) == (val(a[0]) * val(b)) % P(), val(r[1]) == (val(a[1]) * val(b)) % P(), val(r[2]) == (val(a[2]) * val(b)) % P(),"},
        ]},
    ],
    "epilogue": EPILOGUE,
    "theorems": {"thm_constants": "C11.f62.constants.M_R2_R3_U", "thm_roundtrip": "C11.f62.as_int_new.identity",
                 "thm_frobenius3_constants": "C11.f62.ext3.frobenius_constants.pth_power"},
    "assumptions": [],
}
