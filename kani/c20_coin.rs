//# unit: c20_coin
//# crate: crypto
//# mount: crypto/src/random/default.rs
//# modpath: random::default
//# assets: mocks
//# props: C20
//! C20 — DefaultRandomCoin: each method's hash calls (kind, arguments, order) and the dependence of
//! its outputs on the returned digests, stated over a recording hasher whose outputs are fresh
//! unconstrained digests ("any hash function").
#![allow(unused_imports, dead_code)]
use alloc::vec::Vec;

use math::fields::f64::BaseElement as F64;
use utils::{vcheck, vreach, verif_support as vs};

use super::*;
use crate::verif_mocks::{self as mk, RecHasher, D, DN};
use crate::hash::ByteDigest;

type H = RecHasher<F64>;
type Coin = DefaultRandomCoin<H>;

fn any_digest() -> D {
    ByteDigest::new(vs::any_bytes::<DN>())
}
fn d8(d: &D) -> [u8; DN] {
    let b = d.as_bytes();
    let mut r = [0u8; DN];
    r.copy_from_slice(&b[..DN]);
    r
}
fn any_coin() -> Coin {
    DefaultRandomCoin { seed: any_digest(), counter: vs::any_u64() }
}

//# harness: fn=DefaultRandomCoin::new, reseed, next; label=complete (seed of 2 elements); tier=quick
#[cfg_attr(kani, kani::proof)]
#[cfg_attr(kani, kani::unwind(34))]
pub fn k_c20_new_reseed_next() {
    mk::reset();
    let seed = [F64::new(vs::any_u64()), F64::new(vs::any_u64())];
    let mut coin: Coin = RandomCoin::new(&seed);
    vcheck!("C20.new.one_hash_elements_call", mk::calls() == 1 && mk::call(0).kind == mk::K_HASH_ELEMENTS && mk::call(0).n == 2);
    vcheck!("C20.new.hashes_the_seed_elements", {
        let h = mk::call(0).head;
        let mut ok = true;
        let mut i = 0;
        while i < 8 {
            ok = ok && h[i] == seed[0].inner().to_le_bytes()[i] && h[8 + i] == seed[1].inner().to_le_bytes()[i];
            i += 1;
        }
        ok
    });
    vcheck!("C20.new.state", d8(&coin.seed) == mk::call(0).out && coin.counter == 0);

    // next: merge_with_int(seed, counter + 1), counter advances
    let s0 = d8(&coin.seed);
    let n1 = coin.next();
    let n2 = coin.next();
    vcheck!("C20.next.calls", mk::calls() == 3
        && mk::call(1).kind == mk::K_MERGE_INT && mk::call(1).a == s0 && mk::call(1).int == 1
        && mk::call(2).kind == mk::K_MERGE_INT && mk::call(2).a == s0 && mk::call(2).int == 2);
    vcheck!("C20.next.outputs", d8(&n1) == mk::call(1).out && d8(&n2) == mk::call(2).out && coin.counter == 2);

    // reseed: merge([seed, data]), counter reset
    let data = any_digest();
    coin.reseed(data);
    vcheck!("C20.reseed.call", mk::calls() == 4 && mk::call(3).kind == mk::K_MERGE
        && mk::call(3).a == s0 && mk::call(3).b == d8(&data));
    vcheck!("C20.reseed.state", d8(&coin.seed) == mk::call(3).out && coin.counter == 0);
    vreach!("C20.new.reach");
}

//# harness: fn=DefaultRandomCoin::check_leading_zeros; label=complete; tier=quick
#[cfg_attr(kani, kani::proof)]
#[cfg_attr(kani, kani::unwind(34))]
pub fn k_c20_check_leading_zeros() {
    mk::reset();
    let coin = any_coin();
    let (s0, c0) = (d8(&coin.seed), coin.counter);
    let v = vs::any_u64();
    let z = coin.check_leading_zeros(v);
    vcheck!("C20.pow.call", mk::calls() == 1 && mk::call(0).kind == mk::K_MERGE_INT && mk::call(0).a == s0 && mk::call(0).int == v);
    let head = u64::from_le_bytes(mk::call(0).out);
    vcheck!("C20.pow.trailing_zero_bits_of_first_8_bytes", z == head.trailing_zeros());
    vcheck!("C20.pow.state_unchanged", d8(&coin.seed) == s0 && coin.counter == c0);
    vreach!("C20.pow.reach");
}

fn draw_integers_contract(n: usize) {
    mk::reset();
    let mut coin = any_coin();
    let s0 = d8(&coin.seed);
    let dl = vs::any_u32();
    vs::assume(dl >= 1 && dl <= 63);
    let domain = 1usize << dl;
    vs::assume(n < domain); // documented precondition
    let nonce = vs::any_u64();
    let r = coin.draw_integers(n, domain, nonce);
    match r {
        Ok(v) => {
            vcheck!("C20.draw_integers.exact_count", v.len() == n);
            vcheck!("C20.draw_integers.calls", mk::calls() == n + 1
                && mk::call(0).kind == mk::K_MERGE_INT && mk::call(0).a == s0 && mk::call(0).int == nonce);
            let s1 = mk::call(0).out;
            let mut i = 0;
            while i < n {
                let c = mk::call(i + 1);
                vcheck!("C20.draw_integers.next_calls", c.kind == mk::K_MERGE_INT && c.a == s1 && c.int == (i as u64) + 1);
                vcheck!("C20.draw_integers.in_domain", v[i] < domain);
                vcheck!("C20.draw_integers.value", v[i] as u64 == u64::from_le_bytes(c.out) & (domain as u64 - 1));
                i += 1;
            }
        },
        Err(_) => {
            vcheck!("C20.draw_integers.no_spurious_error", false);
        },
    }
}

//# harness: fn=DefaultRandomCoin::draw_integers; label=bounded(num_values 0..=3; every power-of-two domain 2..2^63 larger than num_values, every nonce, every digest); tier=quick; uses=draw_integers_contract; timeout=400
#[cfg_attr(kani, kani::proof)]
#[cfg_attr(kani, kani::unwind(10))]
#[cfg_attr(kani, kani::stub(alloc::fmt::format, vs::fake_format))]
pub fn k_c20_draw_integers() {
    draw_integers_contract(0);
    draw_integers_contract(1);
    draw_integers_contract(3);
    vreach!("C20.draw_integers.reach");
}

/// stands for f64 `BaseElement::new` (an injective tag of its argument): "the drawn element is
/// new(le64(digest))" is then checked without asking SAT to multiply; `new` itself (canonical
/// result, as_int(new(v)) == v) is the Verus unit f64_core
fn stub_new(value: u64) -> F64 {
    F64::from_mont((value.rotate_left(17) ^ 0x5bd1_e995_9e37_79b9) >> 1)
}

//# harness: fn=DefaultRandomCoin::draw (f64 elements); label=bounded(valid element within the first two digests); tier=quick; timeout=400; replay=no
#[cfg_attr(kani, kani::proof)]
#[cfg_attr(kani, kani::unwind(10))]
#[cfg_attr(kani, kani::stub(alloc::fmt::format, vs::fake_format))]
#[cfg_attr(kani, kani::stub(winter_math::fields::f64::BaseElement::new, stub_new))]
pub fn k_c20_draw_element() {
    mk::reset();
    mk::small_from(1);
    let mut coin = any_coin();
    vs::assume(coin.counter < u64::MAX - 2);
    let (s0, c0) = (d8(&coin.seed), coin.counter);
    let r: Result<F64, _> = coin.draw();
    match r {
        Ok(e) => {
            let k = mk::calls();
            vcheck!("C20.draw.calls", k >= 1 && k <= 2);
            let used = u64::from_le_bytes(mk::call(k - 1).out);
            let first = u64::from_le_bytes(mk::call(0).out);
            vcheck!("C20.draw.rejection_sampling", (k == 1) == (first < 0xffffffff00000001));
            // drawn elements are valid: the decoder accepted the digest value (< M) and returns new(value)
            vcheck!("C20.draw.accepted_value_below_modulus", used < 0xffffffff00000001);
            vcheck!("C20.draw.next_args", mk::call(k - 1).kind == mk::K_MERGE_INT && mk::call(k - 1).a == s0
                && mk::call(k - 1).int == c0 + k as u64);
            // the element is new(le64(first admissible digest)); as_int(new(v)) == v is the Verus
            // theorem C11.f64.as_int_new.identity
            vcheck!("C20.draw.element_is_digest_value", e.inner() == F64::new(used).inner());
            // the state after the draw: same seed, counter advanced past every candidate examined (so that
            // the next draw continues the sequence instead of re-examining rejected candidates)
            vcheck!("C20.draw.state_after", d8(&coin.seed) == s0 && coin.counter == c0 + k as u64);
        },
        Err(_) => {
            vcheck!("C20.draw.no_spurious_error", false);
        },
    }
    vreach!("C20.draw.reach");
}
