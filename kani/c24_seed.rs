//# unit: c24_seed
//# crate: air
//# mount: air/src/proof/context.rs
//# modpath: proof::context
//# props: C24
//! C24 — two proof contexts that differ in any listed parameter produce different seed element
//! vectors: relational (two-context) contract on Context::to_elements / TraceInfo::to_elements /
//! ProofOptions::to_elements, run at E = f128 whose From<u32> and from_bytes_with_padding are the
//! identity on integers (so SAT sees exactly the packing logic).
#![allow(unused_imports, dead_code)]
use alloc::vec::Vec;

use math::fields::f128::BaseElement as F;
use utils::{vcheck, vreach, verif_support as vs};

use super::*;
use crate::{BatchingMethod, FieldExtension};

fn any_ext() -> FieldExtension {
    let k = vs::any_u8();
    vs::assume(k < 3);
    match k {
        0 => FieldExtension::None,
        1 => FieldExtension::Quadratic,
        _ => FieldExtension::Cubic,
    }
}
fn any_options() -> ProofOptions {
    let q = vs::any_usize();
    let bl = vs::any_u8();
    let g = vs::any_u32();
    let fl = vs::any_u8();
    let rl = vs::any_u8();
    vs::assume(q >= 1 && q <= 255 && bl >= 1 && bl <= 7 && g <= 32 && fl >= 1 && fl <= 4 && rl <= 8);
    // the batching methods are not among the parameters the seed must bind, but they are free: the listed
    // parameters must be bound whatever the batching methods are (a packing that shares bits with them is a collision)
    ProofOptions::new(q, 1usize << bl, g, any_ext(), 1usize << fl, (1usize << rl) - 1,
        any_batching(), any_batching())
}
fn any_batching() -> BatchingMethod {
    let k = vs::any_u8();
    vs::assume(k < 3);
    match k {
        0 => BatchingMethod::Linear,
        1 => BatchingMethod::Algebraic,
        _ => BatchingMethod::Horner,
    }
}
fn any_trace_info(meta: Vec<u8>) -> TraceInfo {
    let mw = vs::any_usize();
    let aw = vs::any_usize();
    let ar = vs::any_usize();
    let lg = vs::any_u32();
    vs::assume(mw >= 1 && mw <= 255 && aw <= 255 && mw + aw <= 255 && ar <= 255);
    vs::assume(aw != 0 || ar == 0);
    vs::assume(lg >= 3 && lg <= 31);
    TraceInfo::new_multi_segment(mw, aw, ar, 1usize << lg, meta)
}

//# harness: fn=Context::to_elements, TraceInfo::to_elements, ProofOptions::to_elements; label=complete in every scalar parameter and batching method of both contexts (metadata empty); tier=quick; timeout=900; uses=any_options,any_trace_info,any_batching,any_ext
#[cfg_attr(kani, kani::proof)]
#[cfg_attr(kani, kani::unwind(20))]
#[cfg_attr(kani, kani::stub(alloc::fmt::format, vs::fake_format))]
pub fn k_c24_scalars_injective() {
    let t1 = any_trace_info(Vec::new());
    let t2 = any_trace_info(Vec::new());
    let o1 = any_options();
    let o2 = any_options();
    let c1 = vs::any_usize();
    let c2 = vs::any_usize();
    vs::assume(c1 >= 1 && c1 <= u32::MAX as usize && c2 >= 1 && c2 <= u32::MAX as usize);
    vs::assume(t1.length() * o1.blowup_factor() <= u32::MAX as usize);
    vs::assume(t2.length() * o2.blowup_factor() <= u32::MAX as usize);
    let x1 = Context::new::<F>(t1.clone(), o1.clone(), c1);
    let x2 = Context::new::<F>(t2.clone(), o2.clone(), c2);
    let e1: Vec<F> = x1.to_elements();
    let e2: Vec<F> = x2.to_elements();
    if e1 == e2 {
        vcheck!("C24.seed.binds_trace_shape", t1.main_trace_width() == t2.main_trace_width()
            && t1.aux_segment_width() == t2.aux_segment_width()
            && t1.get_num_aux_segment_rand_elements() == t2.get_num_aux_segment_rand_elements());
        vcheck!("C24.seed.binds_trace_length", t1.length() == t2.length());
        vcheck!("C24.seed.binds_constraint_count", c1 == c2);
        vcheck!("C24.seed.binds_options", o1.field_extension() == o2.field_extension()
            && o1.blowup_factor() == o2.blowup_factor()
            && o1.to_fri_options().folding_factor() == o2.to_fri_options().folding_factor()
            && o1.to_fri_options().remainder_max_degree() == o2.to_fri_options().remainder_max_degree()
            && o1.grinding_factor() == o2.grinding_factor()
            && o1.num_queries() == o2.num_queries());
    }
    vreach!("C24.scalars.reach");
}

fn any_meta<const L: usize>() -> Vec<u8> {
    let b: [u8; L] = vs::any_bytes();
    b.to_vec()
}
fn meta_elements(m: Vec<u8>) -> Vec<F> {
    TraceInfo::with_meta(1, 8, m).to_elements()
}

//# harness: fn=TraceInfo::to_elements (metadata chunking); label=bounded(metadata pairs of equal length 1, 2, 15, 16, 17; contents symbolic); tier=quick; timeout=400; uses=any_meta,meta_elements
#[cfg_attr(kani, kani::proof)]
#[cfg_attr(kani, kani::unwind(20))]
#[cfg_attr(kani, kani::stub(alloc::fmt::format, vs::fake_format))]
pub fn k_c24_meta_equal_length_injective() {
    macro_rules! same_len {
        ($l:literal) => {{
            let (a, b) = (any_meta::<$l>(), any_meta::<$l>());
            let differ = a != b;
            let (ea, eb) = (meta_elements(a), meta_elements(b));
            vcheck!("C24.seed.binds_metadata.equal_length", !differ || ea != eb);
        }};
    }
    same_len!(1);
    same_len!(2);
    same_len!(15);
    same_len!(16);
    same_len!(17);
    vreach!("C24.meta_eq.reach");
}

fn meta_len_differs<const L: usize, const L1: usize>(require_nonzero_tail: bool) -> bool {
    let a = any_meta::<L>();
    let b = any_meta::<L1>();
    if require_nonzero_tail {
        vs::assume(b[L1 - 1] != 0);
    }
    meta_elements(a) != meta_elements(b)
}

//# harness: fn=TraceInfo::to_elements (metadata chunking); label=bounded(length pairs (0,1), (1,2), (14,15), (15,16), (16,17); longer one not ending in a zero byte); tier=quick; timeout=400; uses=meta_len_differs,any_meta,meta_elements
#[cfg_attr(kani, kani::proof)]
#[cfg_attr(kani, kani::unwind(20))]
#[cfg_attr(kani, kani::stub(alloc::fmt::format, vs::fake_format))]
pub fn k_c24_meta_length_residual() {
    // residual class of finding F17: the longer metadata does not end in a zero byte
    vcheck!("C24.seed.binds_metadata.length.0_1", meta_len_differs::<0, 1>(false));
    vcheck!("C24.seed.binds_metadata.length.1_2", meta_len_differs::<1, 2>(true));
    vcheck!("C24.seed.binds_metadata.length.14_15", meta_len_differs::<14, 15>(true));
    vcheck!("C24.seed.binds_metadata.length.15_16", meta_len_differs::<15, 16>(false));
    vcheck!("C24.seed.binds_metadata.length.16_17", meta_len_differs::<16, 17>(true));
    vreach!("C24.meta_len.reach");
}

//# harness: fn=TraceInfo::to_elements (metadata chunking); label=bounded(length pair (1,2)); tier=quick; finding=F17; uses=meta_len_differs,any_meta,meta_elements
#[cfg_attr(kani, kani::proof)]
#[cfg_attr(kani, kani::unwind(20))]
#[cfg_attr(kani, kani::stub(alloc::fmt::format, vs::fake_format))]
pub fn k_c24_meta_trailing_zero() {
    // known finding F17: zero padding of the last chunk makes [x] and [x, 0] collide
    vcheck!("C24.seed.binds_metadata.trailing_zero", meta_len_differs::<1, 2>(false));
}

//# harness: fn=Context::to_elements (field modulus halves); label=closed(the three supported moduli); tier=quick
#[cfg_attr(kani, kani::proof)]
#[cfg_attr(kani, kani::unwind(20))]
#[cfg_attr(kani, kani::stub(alloc::fmt::format, vs::fake_format))]
pub fn k_c24_modulus_separates_fields() {
    use math::fields::{f62, f64 as g64};
    let t = TraceInfo::new(1, 8);
    let o = ProofOptions::new(1, 2, 0, FieldExtension::None, 2, 0, BatchingMethod::Linear, BatchingMethod::Linear);
    let a: Vec<F> = Context::new::<F>(t.clone(), o.clone(), 1).to_elements();
    let b: Vec<F> = Context::new::<g64::BaseElement>(t.clone(), o.clone(), 1).to_elements();
    let c: Vec<F> = Context::new::<f62::BaseElement>(t.clone(), o.clone(), 1).to_elements();
    vcheck!("C24.seed.binds_modulus", a != b && a != c && b != c);
}
