//# unit: c26_serde
//# crate: utils/core
//# mount: utils/core/src/serde/mod.rs
//# modpath: serde
//# props: C26
//! C26 — primitive encodings: contracts `decode(encode(v)) == v`, consumed == written, documented
//! vint64 length for every value, and "malformed input => Err, never panic" for the scalar decoders
//! and the in-memory reader.
#![allow(unused_imports, dead_code)]
use alloc::{string::String, vec::Vec};

use super::*;
use crate::{vcheck, vreach, verif_support as vs};

/// documented vint64 length: 1 byte per started group of 7 value bits, 9 bytes above 56 bits
fn vint64_len(v: u64) -> usize {
    let bits = 64 - v.leading_zeros() as usize;
    if bits <= 7 {
        1
    } else if bits > 56 {
        9
    } else {
        (bits + 6) / 7
    }
}

//# harness: fn=Serializable/Deserializable for u8,u16,u32,u64,u128; label=complete; tier=quick
#[cfg_attr(kani, kani::proof)]
#[cfg_attr(kani, kani::unwind(18))]
pub fn k_c26_ints() {
    let (a, b, c, d, e) = (vs::any_u8(), vs::any_u16(), vs::any_u32(), vs::any_u64(), vs::any_u128());
    let mut buf: Vec<u8> = Vec::new();
    a.write_into(&mut buf);
    b.write_into(&mut buf);
    c.write_into(&mut buf);
    d.write_into(&mut buf);
    e.write_into(&mut buf);
    vcheck!("C26.ints.len", buf.len() == 1 + 2 + 4 + 8 + 16);
    vcheck!("C26.ints.size_hint", a.get_size_hint() + b.get_size_hint() + c.get_size_hint()
        + d.get_size_hint() + e.get_size_hint() == buf.len());
    vcheck!("C26.ints.little_endian", buf[1] == b as u8 && buf[3] == c as u8 && buf[7] == d as u8
        && buf[15] == e as u8 && buf[30] == (e >> 120) as u8);
    let mut r = SliceReader::new(&buf);
    vcheck!("C26.ints.u8.roundtrip", u8::read_from(&mut r) == Ok(a));
    vcheck!("C26.ints.u16.roundtrip", u16::read_from(&mut r) == Ok(b));
    vcheck!("C26.ints.u32.roundtrip", u32::read_from(&mut r) == Ok(c));
    vcheck!("C26.ints.u64.roundtrip", u64::read_from(&mut r) == Ok(d));
    vcheck!("C26.ints.u128.roundtrip", u128::read_from(&mut r) == Ok(e));
    vcheck!("C26.ints.consumed", !r.has_more_bytes());
    vcheck!("C26.ints.eof", u8::read_from(&mut r) == Err(DeserializationError::UnexpectedEOF));
    vreach!("C26.ints.reach");
}

//# harness: fn=ByteWriter::write_bool, ByteReader::read_bool; label=complete; tier=quick
#[cfg_attr(kani, kani::proof)]
#[cfg_attr(kani, kani::stub(alloc::fmt::format, vs::fake_format))]
pub fn k_c26_bool() {
    let v = vs::any_bool();
    let mut buf: Vec<u8> = Vec::new();
    buf.write_bool(v);
    vcheck!("C26.bool.len", buf.len() == 1);
    let mut r = SliceReader::new(&buf);
    vcheck!("C26.bool.roundtrip", r.read_bool() == Ok(v));
    vcheck!("C26.bool.consumed", !r.has_more_bytes());
    // every byte other than 0 and 1 is rejected
    let byte = [vs::any_u8()];
    let mut r = SliceReader::new(&byte);
    let got = r.read_bool();
    vcheck!("C26.bool.reject_invalid", got.is_ok() == (byte[0] <= 1));
    vreach!("C26.bool.reach");
}

//# harness: fn=ByteWriter::write_usize, ByteReader::read_usize, usize_encoded_len; label=complete; tier=quick
#[cfg_attr(kani, kani::proof)]
#[cfg_attr(kani, kani::unwind(11))]
#[cfg_attr(kani, kani::stub(alloc::fmt::format, vs::fake_format))]
pub fn k_c26_usize_all_values() {
    let v = vs::any_u64();
    let mut buf: Vec<u8> = Vec::new();
    buf.write_usize(v as usize);
    vcheck!("C26.usize.len", buf.len() == vint64_len(v));
    vcheck!("C26.usize.size_hint", (v as usize).get_size_hint() == buf.len());
    let mut r = SliceReader::new(&buf);
    let back = r.read_usize();
    vcheck!("C26.usize.roundtrip", back == Ok(v as usize));
    vcheck!("C26.usize.consumed", !r.has_more_bytes());
    vreach!("C26.usize.reach");
}

//# harness: fn=usize_encoded_len; label=complete; tier=quick
#[cfg_attr(kani, kani::proof)]
pub fn k_c26_usize_encoded_len() {
    let v = vs::any_u64();
    vcheck!("C26.usize_encoded_len.formula", byte_writer::usize_encoded_len(v) == vint64_len(v));
}

//# harness: fn=ByteReader::read_usize (SliceReader); label=complete; tier=quick; note=all byte strings of length <= 10: decoder consumes at most 9
#[cfg_attr(kani, kani::proof)]
#[cfg_attr(kani, kani::unwind(11))]
#[cfg_attr(kani, kani::stub(alloc::fmt::format, vs::fake_format))]
pub fn k_c26_usize_decode_any_bytes() {
    let bytes: [u8; 10] = vs::any_bytes();
    let len = vs::any_usize();
    vs::assume(len <= 10);
    let mut r = SliceReader::new(&bytes[..len]);
    let want = if len == 0 { 0 } else { bytes[0].trailing_zeros() as usize + 1 };
    match r.read_usize() {
        Ok(v) => {
            vcheck!("C26.usize.decode.ok_iff_enough", len >= want && want >= 1);
            // the decoded value re-encodes within the consumed length (decoders accept padded forms)
            vcheck!("C26.usize.decode.value_fits", vint64_len(v as u64) <= want);
        },
        Err(_) => {
            vcheck!("C26.usize.decode.err_iff_truncated", len < want || len == 0);
        },
    }
}

//# harness: fn=Serializable/Deserializable for Option<T>, tuples, [T; C], (); label=complete; tier=quick
#[cfg_attr(kani, kani::proof)]
#[cfg_attr(kani, kani::unwind(12))]
#[cfg_attr(kani, kani::stub(alloc::fmt::format, vs::fake_format))]
pub fn k_c26_option_tuple_array() {
    let o: Option<u64> = if vs::any_bool() { Some(vs::any_u64()) } else { None };
    let t = (vs::any_u8(), vs::any_u32(), (vs::any_u16(),));
    let arr: [u8; 4] = vs::any_bytes();
    let mut buf: Vec<u8> = Vec::new();
    o.write_into(&mut buf);
    t.write_into(&mut buf);
    arr.write_into(&mut buf);
    ().write_into(&mut buf);
    vcheck!("C26.compound.len", buf.len() == (if o.is_some() { 9 } else { 1 }) + 7 + 4);
    vcheck!("C26.compound.size_hint",
        o.get_size_hint() + t.get_size_hint() + arr.get_size_hint() == buf.len());
    let mut r = SliceReader::new(&buf);
    vcheck!("C26.option.roundtrip", Option::<u64>::read_from(&mut r) == Ok(o));
    vcheck!("C26.tuple.roundtrip", <(u8, u32, (u16,))>::read_from(&mut r) == Ok(t));
    vcheck!("C26.array.roundtrip", <[u8; 4]>::read_from(&mut r) == Ok(arr));
    vcheck!("C26.unit.roundtrip", <()>::read_from(&mut r) == Ok(()));
    vcheck!("C26.compound.consumed", !r.has_more_bytes());
    // an Option tag other than 0/1 is rejected
    let tag = [vs::any_u8(), 0, 0, 0, 0, 0, 0, 0, 0];
    let mut r = SliceReader::new(&tag);
    vcheck!("C26.option.reject_tag", Option::<u64>::read_from(&mut r).is_ok() == (tag[0] <= 1));
    vreach!("C26.compound.reach");
}

//# harness: fn=SliceReader::check_eor/read_u8/peek_u8/read_slice/read_array; label=complete; tier=quick; note=buffer of 6 symbolic bytes, every position and every requested length (full usize)
#[cfg_attr(kani, kani::proof)]
#[cfg_attr(kani, kani::unwind(8))]
pub fn k_c26_slice_reader_bounds() {
    let bytes: [u8; 6] = vs::any_bytes();
    let len = vs::any_usize();
    vs::assume(len <= 6);
    let pos = vs::any_usize();
    vs::assume(pos <= len);
    let mut r = SliceReader::new(&bytes[..len]);
    if pos > 0 {
        let _ = r.read_slice(pos);
    }
    let n = vs::any_usize();
    let fits = (pos as u128) + (n as u128) <= len as u128;
    vcheck!("C26.slice_reader.check_eor.iff", r.check_eor(n).is_ok() == fits);
    vcheck!("C26.slice_reader.has_more", r.has_more_bytes() == (pos < len));
    vcheck!("C26.slice_reader.peek", r.peek_u8().ok() == if pos < len { Some(bytes[pos]) } else { None });
    match r.read_slice(n) {
        Ok(s) => {
            vcheck!("C26.slice_reader.read_slice.ok", fits && s.len() == n && (n == 0 || s[0] == bytes[pos]));
        },
        Err(_) => {
            vcheck!("C26.slice_reader.read_slice.err", !fits);
        },
    }
    let a = r.read_array::<3>();
    let after = if fits { pos + n } else { pos };
    vcheck!("C26.slice_reader.read_array", a.is_ok() == (after + 3 <= len));
    vreach!("C26.slice_reader.reach");
}

fn vec_roundtrip(n: usize) {
    let mut v8: Vec<u8> = Vec::new();
    let mut v16: Vec<u16> = Vec::new();
    let mut i = 0;
    while i < n {
        v8.push(vs::any_u8());
        v16.push(vs::any_u16());
        i += 1;
    }
    let mut buf: Vec<u8> = Vec::new();
    v8.write_into(&mut buf);
    v16.write_into(&mut buf);
    vcheck!("C26.vec.len", buf.len() == 2 + 3 * n);
    vcheck!("C26.vec.size_hint", v8.get_size_hint() + v16.get_size_hint() == buf.len());
    let mut r = SliceReader::new(&buf);
    vcheck!("C26.vec.u8.roundtrip", Vec::<u8>::read_from(&mut r) == Ok(v8));
    vcheck!("C26.vec.u16.roundtrip", Vec::<u16>::read_from(&mut r) == Ok(v16));
    vcheck!("C26.vec.consumed", !r.has_more_bytes());
    vreach!("C26.vec.reach");
}

//# harness: fn=Serializable/Deserializable for Vec<u8>, Vec<u16>; label=bounded(len=0 and len=1, contents symbolic); tier=quick; uses=vec_roundtrip
#[cfg_attr(kani, kani::proof)]
#[cfg_attr(kani, kani::unwind(6))]
#[cfg_attr(kani, kani::stub(alloc::fmt::format, vs::fake_format))]
pub fn k_c26_vec_roundtrip_01() {
    vec_roundtrip(0);
    vec_roundtrip(1);
}

//# harness: fn=Serializable/Deserializable for Vec<u8>, Vec<u16>; label=bounded(len=3, contents symbolic); tier=quick; uses=vec_roundtrip
#[cfg_attr(kani, kani::proof)]
#[cfg_attr(kani, kani::unwind(10))]
#[cfg_attr(kani, kani::stub(alloc::fmt::format, vs::fake_format))]
pub fn k_c26_vec_roundtrip_3() {
    vec_roundtrip(3);
}

//# harness: fn=Deserializable for String (UTF-8 validation); label=bounded(len<=2); tier=quick
#[cfg_attr(kani, kani::proof)]
#[cfg_attr(kani, kani::unwind(8))]
#[cfg_attr(kani, kani::stub(alloc::fmt::format, vs::fake_format))]
pub fn k_c26_string_decode() {
    // length prefix 2 (vint64: 0b101) followed by two arbitrary bytes
    let b: [u8; 2] = vs::any_bytes();
    let enc = [0b101u8, b[0], b[1]];
    let mut r = SliceReader::new(&enc);
    let got = String::read_from(&mut r);
    let valid = core::str::from_utf8(&b).is_ok();
    vcheck!("C26.string.utf8.iff", got.is_ok() == valid);
    if let Ok(s) = got {
        let mut out: Vec<u8> = Vec::new();
        s.write_into(&mut out);
        vcheck!("C26.string.roundtrip", out.len() == 3 && out[0] == 0b101 && out[1] == b[0] && out[2] == b[1]);
    }
}

//# harness: fn=ByteReader::read_many, Deserializable for Vec<u8>; label=bounded(input<=6 bytes, every length-field value); tier=quick; props=C26,C05; timeout=400
#[cfg_attr(kani, kani::proof)]
#[cfg_attr(kani, kani::unwind(9))]
#[cfg_attr(kani, kani::stub(alloc::fmt::format, vs::fake_format))]
pub fn k_c26_vec_u8_decode_malformed() {
    let budget = vs::any_usize();
    vs::assume(budget <= 6);
    let mut r = vs::NondetReader::new(budget);
    let _ = Vec::<u8>::read_from(&mut r);
    vreach!("C26.vec_decode.reach");
}

//# harness: fn=ByteReader::read_many, Deserializable for Vec<u64>, Option<u32>; label=bounded(input<=10 bytes, every length-field value); tier=quick; props=C26,C05; timeout=400
#[cfg_attr(kani, kani::proof)]
#[cfg_attr(kani, kani::unwind(12))]
#[cfg_attr(kani, kani::stub(alloc::fmt::format, vs::fake_format))]
pub fn k_c26_vec_u64_decode_malformed() {
    let budget = vs::any_usize();
    vs::assume(budget <= 10);
    let mut r = vs::NondetReader::new(budget);
    if vs::any_bool() {
        let _ = Vec::<u64>::read_from(&mut r);
    } else {
        let _ = Option::<u32>::read_from(&mut r);
    }
    vreach!("C26.vec64_decode.reach");
}
