//! Verification-only sorted-`Vec` models of `alloc::collections::{BTreeMap, BTreeSet}`, mounted into
//! a scratch copy of `winter-utils` as `utils::verif_models` and substituted (under `cfg(kani)` only)
//! for the std imports of the Merkle and boundary-constraint modules: the real B-tree internals are
//! beyond CBMC (no result in 20 minutes for a 4-leaf batch proof). They offer the methods
//! winterfell calls (and the common ones an edit of those modules is likely to reach for), with the std semantics (ordered by key, insert replaces). Trusted assumption:
//! model == alloc::collections on these methods.
#![allow(dead_code, clippy::all)]
use alloc::vec::Vec;

#[derive(Clone, Debug, Default, PartialEq, Eq)]
pub struct BTreeMap<K, V> {
    items: Vec<(K, V)>,
}

impl<K: Ord, V> BTreeMap<K, V> {
    pub fn new() -> Self {
        Self { items: Vec::new() }
    }
    fn pos(&self, k: &K) -> Result<usize, usize> {
        let mut i = 0;
        while i < self.items.len() {
            if self.items[i].0 == *k {
                return Ok(i);
            }
            if self.items[i].0 > *k {
                return Err(i);
            }
            i += 1;
        }
        Err(i)
    }
    pub fn insert(&mut self, k: K, v: V) -> Option<V> {
        match self.pos(&k) {
            Ok(i) => Some(core::mem::replace(&mut self.items[i].1, v)),
            Err(i) => {
                self.items.insert(i, (k, v));
                None
            },
        }
    }
    pub fn get(&self, k: &K) -> Option<&V> {
        match self.pos(k) {
            Ok(i) => Some(&self.items[i].1),
            Err(_) => None,
        }
    }
    pub fn contains_key(&self, k: &K) -> bool {
        self.pos(k).is_ok()
    }
    pub fn remove(&mut self, k: &K) -> Option<V> {
        match self.pos(k) {
            Ok(i) => Some(self.items.remove(i).1),
            Err(_) => None,
        }
    }
    pub fn len(&self) -> usize {
        self.items.len()
    }
    pub fn is_empty(&self) -> bool {
        self.items.is_empty()
    }
    pub fn clear(&mut self) {
        self.items.clear()
    }
    pub fn keys(&self) -> impl Iterator<Item = &K> {
        self.items.iter().map(|e| &e.0)
    }
    pub fn values(&self) -> impl Iterator<Item = &V> {
        self.items.iter().map(|e| &e.1)
    }
    pub fn iter(&self) -> impl Iterator<Item = (&K, &V)> {
        self.items.iter().map(|e| (&e.0, &e.1))
    }
    pub fn into_values(self) -> impl Iterator<Item = V> {
        self.items.into_iter().map(|e| e.1)
    }
    pub fn get_mut(&mut self, k: &K) -> Option<&mut V> {
        match self.pos(k) {
            Ok(i) => Some(&mut self.items[i].1),
            Err(_) => None,
        }
    }
    pub fn first_key_value(&self) -> Option<(&K, &V)> {
        self.items.first().map(|(k, v)| (k, v))
    }
    pub fn last_key_value(&self) -> Option<(&K, &V)> {
        self.items.last().map(|(k, v)| (k, v))
    }
    pub fn values_mut(&mut self) -> impl Iterator<Item = &mut V> {
        self.items.iter_mut().map(|(_, v)| v)
    }
    pub fn iter_mut(&mut self) -> impl Iterator<Item = (&K, &mut V)> {
        self.items.iter_mut().map(|(k, v)| (&*k, v))
    }
    pub fn into_keys(self) -> impl Iterator<Item = K> {
        self.items.into_iter().map(|(k, _)| k)
    }
    /// entries whose key lies in `range`, in key order (std semantics)
    pub fn range<R: core::ops::RangeBounds<K>>(&self, range: R) -> impl Iterator<Item = (&K, &V)> {
        self.items.iter().filter(move |(k, _)| range.contains(k)).map(|(k, v)| (k, v))
    }
    pub fn retain<F: FnMut(&K, &mut V) -> bool>(&mut self, mut f: F) {
        self.items.retain_mut(|(k, v)| f(k, v));
    }
    pub fn entry(&mut self, k: K) -> Entry<'_, K, V> {
        Entry { map: self, key: k }
    }
}

pub struct Entry<'a, K, V> {
    map: &'a mut BTreeMap<K, V>,
    key: K,
}
impl<'a, K: Ord, V> Entry<'a, K, V> {
    pub fn or_insert_with<F: FnOnce() -> V>(self, f: F) -> &'a mut V {
        match self.map.pos(&self.key) {
            Ok(i) => &mut self.map.items[i].1,
            Err(i) => {
                self.map.items.insert(i, (self.key, f()));
                &mut self.map.items[i].1
            },
        }
    }
    pub fn or_insert(self, v: V) -> &'a mut V {
        self.or_insert_with(|| v)
    }
}

impl<K: Ord, V> core::ops::Index<&K> for BTreeMap<K, V> {
    type Output = V;
    fn index(&self, k: &K) -> &V {
        self.get(k).expect("no entry found for key")
    }
}
impl<K, V> IntoIterator for BTreeMap<K, V> {
    type Item = (K, V);
    type IntoIter = alloc::vec::IntoIter<(K, V)>;
    fn into_iter(self) -> Self::IntoIter {
        self.items.into_iter()
    }
}
impl<K: Ord, V> FromIterator<(K, V)> for BTreeMap<K, V> {
    fn from_iter<T: IntoIterator<Item = (K, V)>>(iter: T) -> Self {
        let mut m = Self::new();
        for (k, v) in iter {
            m.insert(k, v);
        }
        m
    }
}

#[derive(Clone, Debug, Default, PartialEq, Eq)]
pub struct BTreeSet<K> {
    items: Vec<K>,
}
impl<K: Ord> BTreeSet<K> {
    pub fn new() -> Self {
        Self { items: Vec::new() }
    }
    pub fn insert(&mut self, k: K) -> bool {
        let mut i = 0;
        while i < self.items.len() {
            if self.items[i] == k {
                return false;
            }
            if self.items[i] > k {
                break;
            }
            i += 1;
        }
        self.items.insert(i, k);
        true
    }
    pub fn contains(&self, k: &K) -> bool {
        let mut i = 0;
        while i < self.items.len() {
            if self.items[i] == *k {
                return true;
            }
            i += 1;
        }
        false
    }
    pub fn len(&self) -> usize {
        self.items.len()
    }
    pub fn is_empty(&self) -> bool {
        self.items.is_empty()
    }
    pub fn iter(&self) -> impl Iterator<Item = &K> {
        self.items.iter()
    }
}
impl<K> IntoIterator for BTreeSet<K> {
    type Item = K;
    type IntoIter = alloc::vec::IntoIter<K>;
    fn into_iter(self) -> Self::IntoIter {
        self.items.into_iter()
    }
}
impl<K: Ord> FromIterator<K> for BTreeSet<K> {
    fn from_iter<T: IntoIterator<Item = K>>(iter: T) -> Self {
        let mut m = Self::new();
        for k in iter {
            m.insert(k);
        }
        m
    }
}
