//# unit: c22_boundary
//# crate: air
//# mount: air/src/air/boundary/mod.rs
//# modpath: air::boundary
//# assets: tiny models
//# props: C22 C23
//# subst_opt: air/src/air/boundary/mod.rs | collections::{BTreeMap, BTreeSet}, | <empty>
//# subst_opt: air/src/air/boundary/mod.rs | collections::BTreeMap, | <empty>
//# attach: air/src/air/boundary/mod.rs | ^mod constraint; | #[cfg(kani)] #[allow(unused_imports)] use utils::verif_models::{BTreeMap, BTreeSet}; #[cfg(not(kani))] #[allow(unused_imports)] use alloc::collections::{BTreeMap, BTreeSet};
//# subst: air/src/air/boundary/constraint.rs | use alloc::{collections::BTreeMap, vec::Vec}; | use alloc::vec::Vec; #[cfg(kani)] use utils::verif_models::BTreeMap; #[cfg(not(kani))] use alloc::collections::BTreeMap;
//# subst: air/src/air/boundary/constraint_group.rs | use alloc::{collections::BTreeMap, vec::Vec}; | use alloc::vec::Vec; #[cfg(kani)] use utils::verif_models::BTreeMap; #[cfg(not(kani))] use alloc::collections::BTreeMap;
//! C22 / C23 (field clauses) — over the verification-only field F_17 (trace length 8):
//! * each constraint divisor built from an assertion vanishes exactly on the asserted steps and its
//!   degree equals their number; the transition divisor's numerator vanishes on the whole trace
//!   domain, its exemptions exactly on the last k steps, degree n - k;
//! * each boundary constraint evaluates to zero at the domain point of an asserted step exactly when
//!   the trace holds the asserted value.
#![allow(unused_imports, dead_code)]
use alloc::vec::Vec;

use math::{
    verif_tinyfield::{Tiny, P},
    FieldElement, StarkField,
};
use utils::{vcheck, vreach, verif_support as vs};

use super::*;

const N: usize = 8;

fn any_tiny() -> Tiny {
    let v = vs::any_u32();
    vs::assume(v < P);
    Tiny(v)
}
fn domain_point(s: usize) -> Tiny {
    let g = Tiny::get_root_of_unity(3);
    let mut x = Tiny::ONE;
    let mut i = 0;
    while i < s {
        x = x * g;
        i += 1;
    }
    x
}
/// documented step set of an assertion
fn covers(a: &Assertion<Tiny>, s: usize) -> bool {
    if a.stride == 0 {
        s == a.first_step
    } else {
        s < N && s >= a.first_step && (s - a.first_step) % a.stride == 0
    }
}
/// single / periodic / sequence assertion fitting a trace of length 8; `vals` supplies the values
fn any_assertion(vals: [Tiny; 4]) -> Assertion<Tiny> {
    let kind = vs::any_u8();
    vs::assume(kind < 3);
    let first = vs::any_usize();
    let ls = vs::any_u32();
    vs::assume(ls >= 1 && ls <= 3);
    let stride = 1usize << ls;
    if kind == 0 {
        vs::assume(first < N);
        Assertion::single(0, first, vals[0])
    } else if kind == 1 {
        vs::assume(first < stride);
        Assertion::periodic(0, first, stride, vals[0])
    } else {
        vs::assume(first < stride && stride < N);
        let len = N / stride; // 4 or 2
        let mut v = Vec::new();
        let mut i = 0;
        while i < len {
            v.push(vals[i]);
            i += 1;
        }
        Assertion::sequence(0, first, stride, v)
    }
}

//# harness: fn=ConstraintDivisor::from_assertion, degree, evaluate_at; label=bounded(F_17, trace length 8; every single / periodic / sequence assertion); tier=quick; uses=any_assertion,covers,domain_point; timeout=600
#[cfg_attr(kani, kani::proof)]
#[cfg_attr(kani, kani::unwind(12))]
#[cfg_attr(kani, kani::stub(alloc::fmt::format, vs::fake_format))]
pub fn k_c22_assertion_divisor_zeros() {
    let a = any_assertion([Tiny::ONE; 4]);
    let d = ConstraintDivisor::<Tiny>::from_assertion(&a, N);
    let mut count = 0;
    let mut exact = true;
    let mut s = 0;
    while s < N {
        let z = d.evaluate_at(domain_point(s)) == Tiny::ZERO;
        if z != covers(&a, s) {
            exact = false;
        }
        if covers(&a, s) {
            count += 1;
        }
        s += 1;
    }
    vcheck!("C22.divisor.vanishes_exactly_on_asserted_steps", exact);
    vcheck!("C22.divisor.degree_is_number_of_steps", d.degree() == count);
    vreach!("C22.divisor.reach");
}

//# harness: fn=ConstraintDivisor::from_transition, degree, evaluate_exemptions_at; label=bounded(F_17, trace length 8, 1..=3 exemptions); tier=quick; props=C23; uses=domain_point; timeout=600
#[cfg_attr(kani, kani::proof)]
#[cfg_attr(kani, kani::unwind(12))]
#[cfg_attr(kani, kani::stub(alloc::fmt::format, vs::fake_format))]
pub fn k_c23_transition_divisor_zeros() {
    let k = vs::any_usize();
    vs::assume(k >= 1 && k <= 3);
    let d = ConstraintDivisor::<Tiny>::from_transition(N, k);
    vcheck!("C23.transition_divisor.degree", d.degree() == N - k);
    let mut ok = true;
    let mut s = 0;
    while s < N {
        let x = domain_point(s);
        // numerator x^n - 1 vanishes on the whole trace domain
        let (deg, c) = d.numerator()[0];
        let mut xp = Tiny::ONE;
        let mut i = 0;
        while i < deg {
            xp = xp * x;
            i += 1;
        }
        ok = ok && d.numerator().len() == 1 && xp - c == Tiny::ZERO;
        // the exemption product vanishes exactly on the last k steps
        ok = ok && ((d.evaluate_exemptions_at(x) == Tiny::ZERO) == (s >= N - k));
        s += 1;
    }
    vcheck!("C23.transition_divisor.vanishes_except_on_exempt_steps", ok);
    vreach!("C23.transition_divisor.reach");
}

//# harness: fn=BoundaryConstraint::new, evaluate_at; label=bounded(F_17, trace length 8; every assertion kind, up to 4 symbolic asserted values, symbolic trace value); tier=quick; uses=any_assertion,covers,domain_point,any_tiny; timeout=900
#[cfg_attr(kani, kani::proof)]
#[cfg_attr(kani, kani::unwind(12))]
#[cfg_attr(kani, kani::stub(alloc::fmt::format, vs::fake_format))]
pub fn k_c22_boundary_constraint_zero_iff_value() {
    let vals = [any_tiny(), any_tiny(), any_tiny(), any_tiny()];
    let a = any_assertion(vals);
    let inv_g = Tiny::get_root_of_unity(3).inv();
    let mut twiddles = BTreeMap::new();
    let c = BoundaryConstraint::<Tiny, Tiny>::new(a.clone(), inv_g, &mut twiddles, Tiny::ONE);
    let trace_value = any_tiny();
    let s = vs::any_usize();
    vs::assume(s < N && covers(&a, s));
    // the value asserted at step s
    let expected = if a.values.len() == 1 { a.values[0] } else { a.values[(s - a.first_step) / a.stride] };
    let e = c.evaluate_at(domain_point(s), trace_value);
    vcheck!("C22.boundary_constraint.zero_iff_trace_holds_asserted_value", (e == Tiny::ZERO) == (trace_value == expected));
    vreach!("C22.boundary.reach");
}

/// two assertions that tie on (stride, first step) and differ only in their column, listed in both
/// orders: the prepared (natural) order must be the same and sorted by column
fn order_independent(a0: Assertion<Tiny>, a1: Assertion<Tiny>) {
    let x = prepare_assertions(alloc::vec![a0.clone(), a1.clone()], 2, N);
    let y = prepare_assertions(alloc::vec![a1, a0], 2, N);
    vcheck!("C22.prepare_assertions.order_independent", x == y);
    vcheck!("C22.prepare_assertions.natural_order", x.len() == 2 && x[0].column == 0 && x[1].column == 1);
}

//# harness: fn=boundary::prepare_assertions (order independence of the natural order); label=bounded(F_17, trace length 8; pairs of single / periodic assertions tying on (stride, first step), both listing orders; first step symbolic); tier=quick; uses=order_independent; timeout=900
#[cfg_attr(kani, kani::proof)]
#[cfg_attr(kani, kani::unwind(10))]
#[cfg_attr(kani, kani::stub(alloc::fmt::format, vs::fake_format))]
pub fn k_c22_prepare_assertions_order_independent() {
    let first = vs::any_usize();
    vs::assume(first < N);
    order_independent(Assertion::single(0, first, Tiny::new(1)), Assertion::single(1, first, Tiny::new(2)));
    let f2 = vs::any_usize();
    vs::assume(f2 < 2);
    order_independent(Assertion::periodic(0, f2, 2, Tiny::new(1)), Assertion::periodic(1, f2, 2, Tiny::new(2)));
    vreach!("C22.prepare.reach");
}
