use winter_math::{fields::{f62, f64}, FieldElement, StarkField};
use winter_utils::{Deserializable, Serializable};
use std::panic::catch_unwind;
fn main() {
    let which = std::env::args().nth(1).unwrap_or_default();
    match which.as_str() {
        "f62inv" => {
            let x = f62::BaseElement::new(5);
            let z = x + (-x);
            println!("z == ZERO: {}", z == f62::BaseElement::ZERO);
            println!("calling inv on x+(-x) ...");
            let r = z.inv();
            println!("inv returned {}", r);
        }
        "f64small" => {
            let a = f64::BaseElement::from_mont(12297829382663921846);
            let r = a.mul_small(2013265921);
            let expect = a * f64::BaseElement::new(2013265921);
            println!("inner={} M={} as_int r={} expect={} eq={}", r.inner(), f64::BaseElement::MODULUS, r.as_int(), expect.as_int(), r == expect);
        }
        "partopts" => {
            use winter_air::{ProofOptions, FieldExtension, BatchingMethod};
            let o = ProofOptions::new(30, 8, 0, FieldExtension::None, 4, 31, BatchingMethod::Linear, BatchingMethod::Linear).with_partitions(4, 256);
            let b = o.to_bytes();
            println!("bytes {:?}", b);
            let r = catch_unwind(|| ProofOptions::read_from_bytes(&b));
            println!("roundtrip: {:?}", r.map(|x| x.map(|y| y == o)));
        }
        "traceinfo" => {
            use winter_air::TraceInfo;
            let t = TraceInfo::new_multi_segment(200, 55, 3, 8, vec![]);
            let b = t.to_bytes();
            println!("255 cols roundtrip: {:?}", TraceInfo::read_from_bytes(&b).map(|x| x == t));
            let t = TraceInfo::new_multi_segment(2, 3, 0, 8, vec![]);
            println!("aux zero rands roundtrip: {:?}", TraceInfo::read_from_bytes(&t.to_bytes()).map(|x| x == t));
            let r = catch_unwind(|| TraceInfo::read_from_bytes(&[1, 0, 5, 3, 0, 0]));
            println!("aux=0 rands=5: {:?}", r.is_err());
            let r = catch_unwind(|| TraceInfo::read_from_bytes(&[1, 0, 0, 64, 0, 0]));
            println!("exp=64 panics: {:?}", r.is_err());
        }
        "rescuehash" => {
            use winter_crypto::{hashers::Rp64_256, Hasher};
            for n in [56usize, 57, 62, 63, 64, 100] {
                let v = vec![1u8; n];
                let r = catch_unwind(|| Rp64_256::hash(&v));
                println!("Rp64_256::hash len {} panics: {}", n, r.is_err());
            }
        }
        "coin0" => {
            use winter_crypto::{hashers::Blake3_256, DefaultRandomCoin, RandomCoin};
            let mut c = DefaultRandomCoin::<Blake3_256<f64::BaseElement>>::new(&[f64::BaseElement::ONE]);
            println!("draw_integers(0,..) len = {:?}", c.draw_integers(0, 16, 0).map(|v| v.len()));
        }
        "meta" => {
            use winter_air::TraceInfo; use winter_math::ToElements;
            let a: Vec<f64::BaseElement> = TraceInfo::with_meta(1, 8, vec![1]).to_elements();
            let b: Vec<f64::BaseElement> = TraceInfo::with_meta(1, 8, vec![1, 0]).to_elements();
            println!("meta [1] vs [1,0] same elements: {}", a == b);
        }
        _ => {}
    }
}
