//! verification-only support: nondeterministic ByteReader with a byte budget
use crate::{ByteReader, DeserializationError};
use alloc::vec::Vec;

pub struct NondetReader { pub budget: usize, peeked: Option<u8>, scratch: Vec<u8> }
impl NondetReader {
    pub fn new(budget: usize) -> Self { Self { budget, peeked: None, scratch: Vec::new() } }
    fn next(&mut self) -> Result<u8, DeserializationError> {
        if let Some(b) = self.peeked.take() { self.budget -= 1; return Ok(b); }
        if self.budget == 0 { return Err(DeserializationError::UnexpectedEOF); }
        self.budget -= 1;
        Ok(kani::any())
    }
}
impl ByteReader for NondetReader {
    fn read_u8(&mut self) -> Result<u8, DeserializationError> { self.next() }
    fn peek_u8(&self) -> Result<u8, DeserializationError> {
        // interior mutability avoided: peek returns a fresh value only via unsafe cell-free trick:
        // we model peek by requiring callers (read_usize) to tolerate any value; memoisation done through a raw pointer
        let me = self as *const Self as *mut Self;
        unsafe {
            if let Some(b) = (*me).peeked { return Ok(b); }
            if (*me).budget == 0 { return Err(DeserializationError::UnexpectedEOF); }
            let b: u8 = kani::any();
            (*me).peeked = Some(b);
            Ok(b)
        }
    }
    fn read_slice(&mut self, len: usize) -> Result<&[u8], DeserializationError> {
        if len > self.budget { return Err(DeserializationError::UnexpectedEOF); }
        self.scratch.clear();
        for _ in 0..len { let b = self.next()?; self.scratch.push(b); }
        Ok(&self.scratch)
    }
    fn read_array<const N: usize>(&mut self) -> Result<[u8; N], DeserializationError> {
        if N > self.budget { return Err(DeserializationError::UnexpectedEOF); }
        let mut r = [0u8; N];
        for i in 0..N { r[i] = self.next()?; }
        Ok(r)
    }
    fn check_eor(&self, num_bytes: usize) -> Result<(), DeserializationError> {
        if num_bytes > self.budget { Err(DeserializationError::UnexpectedEOF) } else { Ok(()) }
    }
    fn has_more_bytes(&self) -> bool { self.budget > 0 }
}

pub fn fake_format(_a: core::fmt::Arguments<'_>) -> alloc::string::String { alloc::string::String::new() }
