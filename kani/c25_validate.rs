//# unit: c25_validate
//# crate: verifier
//# mount: verifier/src/lib.rs
//# modpath:
//# props: C25
//! C25 — AcceptableOptions::validate accepts a proof exactly when the computed conjectured security
//! meets the requested minimum, or when the proof's options are in the accepted set.
#![allow(unused_imports, dead_code)]
use alloc::vec::Vec;

use air::{proof::Context, BatchingMethod, TraceInfo};
use crypto::hashers::Blake3_256;
use math::fields::f64::BaseElement as F64;
use utils::{vcheck, vreach, verif_support as vs};

use super::*;

type H = Blake3_256<F64>;

fn any_options() -> ProofOptions {
    let nq = vs::any_usize();
    let bl = vs::any_u8();
    let g = vs::any_u32();
    let e = vs::any_u8();
    vs::assume(nq >= 1 && nq <= 255 && bl >= 1 && bl <= 7 && g <= 32 && e <= 2);
    let ext = match e {
        0 => FieldExtension::None,
        1 => FieldExtension::Quadratic,
        _ => FieldExtension::Cubic,
    };
    ProofOptions::new(nq, 1usize << bl, g, ext, 4, 31, BatchingMethod::Linear, BatchingMethod::Linear)
}

// the proven-security branch of validate() is floating point (log2, powf, sqrt); the harness never takes
// it, but the model checker cannot see that statically, so the libm wrappers are stubbed
fn stub_f1(_v: f64) -> f64 {
    1.0
}
fn stub_f2(_v: f64, _e: f64) -> f64 {
    1.0
}

//# harness: fn=AcceptableOptions::validate (MinConjecturedSecurity, OptionSet), Proof::conjectured_security; label=complete in queries, blowup, grinding, extension, requested minimum; tier=quick; timeout=400
#[cfg_attr(kani, kani::proof)]
#[cfg_attr(kani, kani::unwind(10))]
#[cfg_attr(kani, kani::stub(alloc::fmt::format, vs::fake_format))]
#[cfg_attr(kani, kani::stub(winter_air::proof::security::log2, stub_f1))]
#[cfg_attr(kani, kani::stub(winter_air::proof::security::sqrt, stub_f1))]
#[cfg_attr(kani, kani::stub(winter_air::proof::security::ceil, stub_f1))]
#[cfg_attr(kani, kani::stub(winter_air::proof::security::powf, stub_f2))]
pub fn k_c25_validate_iff() {
    let o = any_options();
    // a structurally minimal proof: validate() only looks at the context
    let empty_queries = [1u8, 1u8]; // two empty byte vectors (vint64 length 0 each)
    let proof = Proof {
        context: Context::new::<F64>(TraceInfo::new(1, 8), o.clone(), 1),
        num_unique_queries: 1,
        commitments: air::proof::Commitments::default(),
        trace_queries: Vec::new(),
        constraint_queries: air::proof::Queries::read_from(&mut SliceReader::new(&empty_queries)).unwrap(),
        ood_frame: air::proof::OodFrame::default(),
        fri_proof: fri::FriProof::new_dummy(),
        pow_nonce: 0,
    };
    let min = vs::any_u32();
    let expected = proof.conjectured_security::<H>().bits() >= min;
    let got = AcceptableOptions::MinConjecturedSecurity(min).validate::<H>(&proof).is_ok();
    vcheck!("C25.validate.min_conjectured.iff", got == expected);
    // option set: accepted exactly when the proof's options are a member
    let other = any_options();
    let set = AcceptableOptions::OptionSet(alloc::vec![other.clone()]);
    vcheck!("C25.validate.option_set.iff", set.validate::<H>(&proof).is_ok() == (other == o));
    vreach!("C25.validate.reach");
}
