//# unit: c28_rowhash_prover
//# crate: prover
//# mount: prover/src/matrix/row_matrix.rs
//# modpath: matrix::row_matrix
//# assets: mocks
//# props: C28 C01
//! C28 / C01 (prover side) — every per-row digest handed to the vector commitment by
//! `RowMatrix::commit_to_rows` follows the shared row-digest rule `rowhash_spec` with the partition
//! size `PartitionOptions::partition_size::<E>(num_cols)`, for every partition setting.
#![allow(unused_imports, dead_code, static_mut_refs)]
use alloc::vec::Vec;

use crypto::{
    verif_mocks::{self as mk, RecHasher, D, DN},
    Digest,
};
use math::fields::f64::BaseElement as F64;
use utils::{vcheck, vreach, verif_support as vs};

use super::*;

type HR = RecHasher<F64>;

static mut ITEMS: [[u8; 32]; 4] = [[0; 32]; 4];
static mut N_ITEMS: usize = 0;

/// vector commitment recording the items it is built from
pub struct RecVC;
impl VectorCommitment<HR> for RecVC {
    type Options = ();
    type Proof = u8;
    type MultiProof = u8;
    type Error = ();
    fn with_options(items: Vec<D>, _o: ()) -> Result<Self, ()> {
        unsafe {
            N_ITEMS = items.len();
            let mut i = 0;
            while i < 4 && i < items.len() {
                ITEMS[i] = items[i].as_bytes();
                i += 1;
            }
        }
        Ok(RecVC)
    }
    fn commitment(&self) -> D {
        D::default()
    }
    fn domain_len(&self) -> usize {
        0
    }
    fn get_proof_domain_len(_p: &u8) -> usize {
        0
    }
    fn get_multiproof_domain_len(_p: &u8) -> usize {
        0
    }
    fn open(&self, _i: usize) -> Result<(D, u8), ()> {
        Err(())
    }
    fn open_many(&self, _i: &[usize]) -> Result<(Vec<D>, u8), ()> {
        Err(())
    }
    fn verify(_c: D, _i: usize, _item: D, _p: &u8) -> Result<(), ()> {
        Err(())
    }
    fn verify_many(_c: D, _i: &[usize], _items: &[D], _p: &u8) -> Result<(), ()> {
        Err(())
    }
}

/// two rows of width W; partition options concrete per instance (num_partitions, hash_rate)
fn commit_follows_rule<const W: usize>(np: usize, hr: usize) {
    use math::FieldElement;
    mk::reset();
    let mut data = Vec::new();
    let mut i = 0;
    while i < 2 * W {
        let v = vs::any_u64();
        vs::assume(v < 0xffffffff00000001);
        data.push(F64::from_mont(v));
        i += 1;
    }
    let m = RowMatrix::<F64> { data, row_width: W, elements_per_row: W };
    let po = PartitionOptions::new(np, hr);
    let p = po.partition_size::<F64>(W);
    let _vc: RecVC = m.commit_to_rows::<HR, RecVC>(po);
    // the bytes of a row are the in-memory bytes of its elements (what hash_elements of the recording hasher sees)
    let (r0, r1) = (F64::elements_as_bytes(m.row(0)), F64::elements_as_bytes(m.row(1)));
    let ok = match mk::rowhash_spec(0, r0, 8, p) {
        Some((n0, out0)) => match mk::rowhash_spec(n0, r1, 8, p) {
            Some((n1, out1)) => unsafe {
                n1 == mk::calls() && N_ITEMS == 2 && ITEMS[0][..DN] == out0 && ITEMS[1][..DN] == out1
            },
            None => false,
        },
        None => false,
    };
    vcheck!("C28.rowhash.prover.follows_rule", ok);
    // C01: prover and verifier derive the same leaf for the same row (both follow the one rule)
    vcheck!("C01.rowhash.prover.same_rule_as_verifier", ok);
}

/// the same for a matrix over the quadratic extension (the auxiliary-trace and constraint-composition
/// commitments): W extension columns = 2W base elements per row, partition size counted in columns
fn commit_follows_rule_quad<const W: usize>(np: usize, hr: usize) {
    use math::{fields::QuadExtension, FieldElement};
    type Q = QuadExtension<F64>;
    mk::reset();
    let mut data = Vec::new();
    let mut i = 0;
    while i < 4 * W {
        let v = vs::any_u64();
        vs::assume(v < 0xffffffff00000001);
        data.push(F64::from_mont(v));
        i += 1;
    }
    let m = RowMatrix::<Q> { data, row_width: 2 * W, elements_per_row: 2 * W };
    let po = PartitionOptions::new(np, hr);
    // the partition size the verifier computes for this commitment: in columns of the extension field
    let p = po.partition_size::<Q>(W);
    let _vc: RecVC = m.commit_to_rows::<HR, RecVC>(po);
    let (r0, r1) = (Q::elements_as_bytes(m.row(0)), Q::elements_as_bytes(m.row(1)));
    let ok = match mk::rowhash_spec(0, r0, 16, p) {
        Some((n0, out0)) => match mk::rowhash_spec(n0, r1, 16, p) {
            Some((n1, out1)) => unsafe {
                n1 == mk::calls() && N_ITEMS == 2 && ITEMS[0][..DN] == out0 && ITEMS[1][..DN] == out1
            },
            None => false,
        },
        None => false,
    };
    vcheck!("C28.rowhash.prover.follows_rule.extension_field", ok);
    vcheck!("C01.rowhash.prover.same_rule_as_verifier.extension_field", ok);
}

//# harness: fn=RowMatrix::commit_to_rows over QuadExtension (2 extension columns, partitions (1, 1)); label=bounded(2 rows of 2 quadratic-extension columns, partition setting (1, 1); every element, any hash function); tier=quick; uses=commit_follows_rule_quad; timeout=900
#[cfg_attr(kani, kani::proof)]
#[cfg_attr(kani, kani::unwind(50))]
#[cfg_attr(kani, kani::stub(alloc::fmt::format, vs::fake_format))]
pub fn k_c28_prover_commit_to_rows_ext_w2_p1_1() {
    commit_follows_rule_quad::<2>(1, 1);
    vreach!("C28.prover_ext.w2_p1_1.reach");
}

//# harness: fn=RowMatrix::commit_to_rows over QuadExtension (2 extension columns, partitions (2, 1)); label=bounded(2 rows of 2 quadratic-extension columns, partition setting (2, 1); every element, any hash function); tier=quick; uses=commit_follows_rule_quad; timeout=900
#[cfg_attr(kani, kani::proof)]
#[cfg_attr(kani, kani::unwind(50))]
#[cfg_attr(kani, kani::stub(alloc::fmt::format, vs::fake_format))]
pub fn k_c28_prover_commit_to_rows_ext_w2_p2_1() {
    commit_follows_rule_quad::<2>(2, 1);
    vreach!("C28.prover_ext.w2_p2_1.reach");
}

//# harness: fn=RowMatrix::commit_to_rows over QuadExtension (3 extension columns, partitions (2, 2)); label=bounded(2 rows of 3 quadratic-extension columns, partition setting (2, 2); every element, any hash function); tier=quick; uses=commit_follows_rule_quad; timeout=900
#[cfg_attr(kani, kani::proof)]
#[cfg_attr(kani, kani::unwind(50))]
#[cfg_attr(kani, kani::stub(alloc::fmt::format, vs::fake_format))]
pub fn k_c28_prover_commit_to_rows_ext_w3_p2_2() {
    commit_follows_rule_quad::<3>(2, 2);
    vreach!("C28.prover_ext.w3_p2_2.reach");
}

//# harness: fn=RowMatrix::commit_to_rows over QuadExtension (3 extension columns, partitions (2, 8)); label=bounded(2 rows of 3 quadratic-extension columns, partition setting (2, 8); every element, any hash function); tier=quick; uses=commit_follows_rule_quad; timeout=900
#[cfg_attr(kani, kani::proof)]
#[cfg_attr(kani, kani::unwind(50))]
#[cfg_attr(kani, kani::stub(alloc::fmt::format, vs::fake_format))]
pub fn k_c28_prover_commit_to_rows_ext_w3_p2_8() {
    commit_follows_rule_quad::<3>(2, 8);
    vreach!("C28.prover_ext.w3_p2_8.reach");
}

//# harness: fn=RowMatrix::commit_to_rows, PartitionOptions::partition_size, num_partitions (width 1, partitions (1, 1)); label=bounded(2 rows of 1 base-field columns, partition setting (1, 1); every element, any hash function); tier=quick; uses=commit_follows_rule; timeout=900
#[cfg_attr(kani, kani::proof)]
#[cfg_attr(kani, kani::unwind(34))]
#[cfg_attr(kani, kani::stub(alloc::fmt::format, vs::fake_format))]
pub fn k_c28_prover_commit_to_rows_w1_p1_1() {
    commit_follows_rule::<1>(1, 1);
    vreach!("C28.prover.w1_p1_1.reach");
}

//# harness: fn=RowMatrix::commit_to_rows, PartitionOptions::partition_size, num_partitions (width 4, partitions (1, 1)); label=bounded(2 rows of 4 base-field columns, partition setting (1, 1); every element, any hash function); tier=quick; uses=commit_follows_rule; timeout=900
#[cfg_attr(kani, kani::proof)]
#[cfg_attr(kani, kani::unwind(34))]
#[cfg_attr(kani, kani::stub(alloc::fmt::format, vs::fake_format))]
pub fn k_c28_prover_commit_to_rows_w4_p1_1() {
    commit_follows_rule::<4>(1, 1);
    vreach!("C28.prover.w4_p1_1.reach");
}

//# harness: fn=RowMatrix::commit_to_rows, PartitionOptions::partition_size, num_partitions (width 4, partitions (2, 1)); label=bounded(2 rows of 4 base-field columns, partition setting (2, 1); every element, any hash function); tier=quick; uses=commit_follows_rule; timeout=900
#[cfg_attr(kani, kani::proof)]
#[cfg_attr(kani, kani::unwind(34))]
#[cfg_attr(kani, kani::stub(alloc::fmt::format, vs::fake_format))]
pub fn k_c28_prover_commit_to_rows_w4_p2_1() {
    commit_follows_rule::<4>(2, 1);
    vreach!("C28.prover.w4_p2_1.reach");
}

//# harness: fn=RowMatrix::commit_to_rows, PartitionOptions::partition_size, num_partitions (width 4, partitions (2, 8)); label=bounded(2 rows of 4 base-field columns, partition setting (2, 8); every element, any hash function); tier=quick; uses=commit_follows_rule; timeout=900
#[cfg_attr(kani, kani::proof)]
#[cfg_attr(kani, kani::unwind(34))]
#[cfg_attr(kani, kani::stub(alloc::fmt::format, vs::fake_format))]
pub fn k_c28_prover_commit_to_rows_w4_p2_8() {
    commit_follows_rule::<4>(2, 8);
    vreach!("C28.prover.w4_p2_8.reach");
}

//# harness: fn=RowMatrix::commit_to_rows, PartitionOptions::partition_size, num_partitions (width 5, partitions (4, 1)); label=bounded(2 rows of 5 base-field columns, partition setting (4, 1); every element, any hash function); tier=quick; uses=commit_follows_rule; timeout=900
#[cfg_attr(kani, kani::proof)]
#[cfg_attr(kani, kani::unwind(34))]
#[cfg_attr(kani, kani::stub(alloc::fmt::format, vs::fake_format))]
pub fn k_c28_prover_commit_to_rows_w5_p4_1() {
    commit_follows_rule::<5>(4, 1);
    vreach!("C28.prover.w5_p4_1.reach");
}

//# harness: fn=RowMatrix::commit_to_rows, PartitionOptions::partition_size, num_partitions (width 6, partitions (3, 2)); label=bounded(2 rows of 6 base-field columns, partition setting (3, 2); every element, any hash function); tier=quick; uses=commit_follows_rule; timeout=900
#[cfg_attr(kani, kani::proof)]
#[cfg_attr(kani, kani::unwind(34))]
#[cfg_attr(kani, kani::stub(alloc::fmt::format, vs::fake_format))]
pub fn k_c28_prover_commit_to_rows_w6_p3_2() {
    commit_follows_rule::<6>(3, 2);
    vreach!("C28.prover.w6_p3_2.reach");
}

//# harness: fn=PartitionOptions::partition_size, num_partitions; label=complete in columns 1..=255 and every partition setting (1..=16, 1..=256), extension degrees 1, 2, 3; tier=quick
#[cfg_attr(kani, kani::proof)]
#[cfg_attr(kani, kani::stub(alloc::fmt::format, vs::fake_format))]
pub fn k_c28_partition_arithmetic() {
    use math::fields::{CubeExtension, QuadExtension};
    let cols = vs::any_usize();
    vs::assume(cols >= 1 && cols <= 255);
    let (np, hr) = (vs::any_usize(), vs::any_usize());
    vs::assume(np >= 1 && np <= 16 && hr >= 1 && hr <= 256);
    let po = PartitionOptions::new(np, hr);
    let (p1, n1) = (po.partition_size::<F64>(cols), po.num_partitions::<F64>(cols));
    let (p2, n2) = (po.partition_size::<QuadExtension<F64>>(cols), po.num_partitions::<QuadExtension<F64>>(cols));
    let (p3, n3) = (po.partition_size::<CubeExtension<F64>>(cols), po.num_partitions::<CubeExtension<F64>>(cols));
    vcheck!("C28.partition.covers_all_columns", p1 >= 1 && n1 * p1 >= cols && p2 >= 1 && n2 * p2 >= cols && p3 >= 1 && n3 * p3 >= cols);
    vcheck!("C28.partition.no_more_than_requested", n1 <= np && n2 <= np && n3 <= np);
    vcheck!("C28.partition.no_empty_partition", (n1 - 1) * p1 < cols && (n2 - 1) * p2 < cols && (n3 - 1) * p3 < cols);
    vreach!("C28.partition.reach");
}
