//# unit: c05_fri
//# crate: fri
//# mount: fri/src/proof.rs
//# modpath: proof
//# props: C05
//! C05 (FRI proof container) — `FriProof::read_from` followed by `num_partitions()` never panics whatever the
//! partition-exponent byte is: exponents the platform cannot represent are rejected by the decoder (repaired
//! defect F11c: 2^byte was computed for any byte). Zero layers and an empty remainder keep the instance
//! loop-free, so the obligation is complete in the exponent byte.
#![allow(unused_imports, dead_code)]
use utils::{vcheck, vreach, verif_support as vs, SliceReader};

use super::*;

//# harness: fn=FriProof::read_from, FriProof::num_partitions; label=complete in the partition-exponent byte (zero layers, empty remainder); tier=quick; timeout=600
#[cfg_attr(kani, kani::proof)]
#[cfg_attr(kani, kani::unwind(10))]
#[cfg_attr(kani, kani::stub(alloc::fmt::format, vs::fake_format))]
pub fn k_c05_fri_num_partitions() {
    let e = vs::any_u8();
    // num_layers = 0, remainder length = 0 (u16 little endian), partition exponent
    let bytes = [0u8, 0, 0, e];
    let mut r = SliceReader::new(&bytes);
    match FriProof::read_from(&mut r) {
        Ok(p) => {
            vcheck!("C05.fri.num_partitions", (e as u32) < usize::BITS && p.num_partitions() == 1usize << e);
        },
        Err(_) => {
            vcheck!("C05.fri.num_partitions.rejected_only_when_unrepresentable", (e as u32) >= usize::BITS);
        },
    }
    vreach!("C05.fri.num_partitions.reach");
}
