"""Verus unit: f64 Montgomery core — real text of mont_red_cst, mont_to_int, BaseElement::{new, as_int,
mul_small}, and the operator impls, against exact modular contracts."""

F = "math/src/field/f64/mod.rs"

PRELUDE = r'''
pub open spec fn P() -> int { 0xffffffff00000001 }
pub open spec fn R() -> int { 0x1_0000_0000_0000_0000 }
pub open spec fn INV() -> int { 18446744065119617025 }

pub assume_specification[ u64::overflowing_add ](a: u64, b: u64) -> (r: (u64, bool))
    ensures r.0 == a.wrapping_add(b), r.1 == (a as int + b as int >= 0x1_0000_0000_0000_0000);
pub assume_specification[ u64::overflowing_sub ](a: u64, b: u64) -> (r: (u64, bool))
    ensures r.0 == a.wrapping_sub(b), r.1 == ((a as int) < (b as int));

proof fn lemma_wadd(x: u64, y: u64)
    ensures x.wrapping_add(y) == add(x, y)
{
    let z: u64 = (((x as u128 + y as u128) as u128) % 0x1_0000_0000_0000_0000u128) as u64;
    assert(z == x.wrapping_add(y));
    assert(z == add(x, y)) by (bit_vector) requires z == (((x as u128 + y as u128) as u128) % 0x1_0000_0000_0000_0000u128) as u64;
}
proof fn lemma_wsub(x: u64, y: u64)
    ensures x.wrapping_sub(y) == sub(x, y)
{
    let z: u64 = (((x as u128 + 0x1_0000_0000_0000_0000u128 - y as u128) as u128) % 0x1_0000_0000_0000_0000u128) as u64;
    assert(z == x.wrapping_sub(y));
    assert(z == sub(x, y)) by (bit_vector) requires z == (((x as u128 + 0x1_0000_0000_0000_0000u128 - y as u128) as u128) % 0x1_0000_0000_0000_0000u128) as u64;
}

// q*M = b*2^64 + xl where q = a = xl*(2^32+1) mod 2^64
proof fn lemma_qm(xl: u64, a: u64, ec: u64, b: u64)
    requires
        a == xl.wrapping_add(xl << 32),
        ec == (if (xl as int + (xl << 32) as int >= 0x1_0000_0000_0000_0000) { 1u64 } else { 0u64 }),
        b == a.wrapping_sub(a >> 32).wrapping_sub(ec),
    ensures
        a as int * P() == b as int * R() + xl as int,
{
    let sh: u64 = xl << 32;
    assert(ec == (if add(xl, sh) < xl { 1u64 } else { 0u64 })) by {
        assert((xl as int + sh as int >= 0x1_0000_0000_0000_0000) == (add(xl, sh) < xl)) by (bit_vector);
    }
    lemma_wadd(xl, sh);
    assert(a == add(xl, sh));
    lemma_wsub(a, a >> 32);
    lemma_wsub(sub(a, a >> 32), ec);
    assert(b == sub(sub(a, a >> 32), ec));
    let a128 = a as u128; let b128 = b as u128; let xl128 = xl as u128;
    assert(sub(add(a128 << 64, a128), a128 << 32) == add(b128 << 64, xl128)) by (bit_vector)
        requires
            a == add(xl, xl << 32),
            ec == (if add(xl, xl << 32) < xl { 1u64 } else { 0u64 }),
            b == sub(sub(a, a >> 32), ec),
            a128 == a as u128, b128 == b as u128, xl128 == xl as u128;
    assert(a128 << 64 == a128 * 0x1_0000_0000_0000_0000u128) by (bit_vector) requires a128 < 0x1_0000_0000_0000_0000u128;
    assert(a128 << 32 == a128 * 0x1_0000_0000u128) by (bit_vector) requires a128 < 0x1_0000_0000_0000_0000u128;
    assert(b128 << 64 == b128 * 0x1_0000_0000_0000_0000u128) by (bit_vector) requires b128 < 0x1_0000_0000_0000_0000u128;
    assert(a as int * P() == a as int * R() + a as int - a as int * 0x1_0000_0000) by (nonlinear_arith)
        requires P() == R() - 0x1_0000_0000 + 1;
}

// 2^64 is invertible modulo M: cancel it
proof fn lemma_times_one(a: int)
    requires 0 <= a < P(), (R() * INV()) % P() == 1,
    ensures (a * (R() * INV())) % P() == a,
{
    vstd::arithmetic::div_mod::lemma_mul_mod_noop_right(a, R() * INV(), P());
    assert((a * 1) % P() == a) by { vstd::arithmetic::div_mod::lemma_small_mod(a as nat, P() as nat); }
}
proof fn lemma_cancel_r(a: int, b: int)
    requires (a * R()) % P() == (b * R()) % P(), 0 <= a < P(), 0 <= b < P(),
    ensures a == b,
{
    assert((R() * INV()) % P() == 1) by (compute);
    lemma_times_one(a); lemma_times_one(b);
    assert(((a * R()) * INV()) % P() == ((b * R()) * INV()) % P()) by {
        vstd::arithmetic::div_mod::lemma_mul_mod_noop_left(a * R(), INV(), P());
        vstd::arithmetic::div_mod::lemma_mul_mod_noop_left(b * R(), INV(), P());
    }
    assert((a * R()) * INV() == a * (R() * INV())) by (nonlinear_arith);
    assert((b * R()) * INV() == b * (R() * INV())) by (nonlinear_arith);
}
'''


OPS_SPECS = r"""
impl Copy for BaseElement {}
impl Clone for BaseElement { fn clone(&self) -> Self { *self } }
pub open spec fn wf(e: BaseElement) -> bool { (e.0 as int) < P() }
// the field element an internal value stands for: inner * 2^-64 mod p (Montgomery form)
pub open spec fn vali(x: int) -> int { (x * INV()) % P() }
pub open spec fn val(e: BaseElement) -> int { vali(e.0 as int) }

pub proof fn lemma_vali_congruent(x: int, y: int)
    requires x % P() == y % P(),
    ensures vali(x) == vali(y),
{
    vstd::arithmetic::div_mod::lemma_mul_mod_noop_left(x, INV(), P());
    vstd::arithmetic::div_mod::lemma_mul_mod_noop_left(y, INV(), P());
}
pub proof fn lemma_val_add_forall(a: int, b: int)
    ensures forall|r: int| #![trigger vali(r)] r % P() == (a + b) % P() ==> vali(r) == (vali(a) + vali(b)) % P(),
{
    assert forall|r: int| #![trigger vali(r)] r % P() == (a + b) % P() implies vali(r) == (vali(a) + vali(b)) % P() by {
        lemma_vali_congruent(r, a + b);
        assert((a + b) * INV() == a * INV() + b * INV()) by (nonlinear_arith);
        vstd::arithmetic::div_mod::lemma_add_mod_noop(a * INV(), b * INV(), P());
    }
}
pub proof fn lemma_val_sub_forall(a: int, b: int)
    ensures forall|r: int| #![trigger vali(r)] r % P() == (a - b) % P() ==> vali(r) == (vali(a) - vali(b)) % P(),
{
    assert forall|r: int| #![trigger vali(r)] r % P() == (a - b) % P() implies vali(r) == (vali(a) - vali(b)) % P() by {
        lemma_vali_congruent(r, a - b);
        assert((a - b) * INV() == a * INV() - b * INV()) by (nonlinear_arith);
        vstd::arithmetic::div_mod::lemma_sub_mod_noop(a * INV(), b * INV(), P());
    }
}
pub proof fn lemma_val_mul_forall(a: int, b: int)
    ensures forall|r: int| #![trigger vali(r)] (r * R()) % P() == (a * b) % P() ==> vali(r) == (vali(a) * vali(b)) % P(),
{
    assert forall|r: int| #![trigger vali(r)] (r * R()) % P() == (a * b) % P() implies vali(r) == (vali(a) * vali(b)) % P() by {
        let x = a * b;
        let y = r * R();
        // x * INV * INV == y * INV * INV (mod P)
        vstd::arithmetic::div_mod::lemma_mul_mod_noop_left(x, INV() * INV(), P());
        vstd::arithmetic::div_mod::lemma_mul_mod_noop_left(y, INV() * INV(), P());
        // y * INV * INV == (r * INV) * (R * INV) == r * INV (mod P)
        assert(y * (INV() * INV()) == (r * INV()) * (R() * INV())) by (nonlinear_arith) requires y == r * R();
        assert((R() * INV()) % P() == 1) by (compute);
        vstd::arithmetic::div_mod::lemma_mul_mod_noop_right(r * INV(), R() * INV(), P());
        assert(((r * INV()) * 1) % P() == vali(r));
        // vali(a) * vali(b) == (a * INV) * (b * INV) == x * INV * INV (mod P)
        vstd::arithmetic::div_mod::lemma_mul_mod_noop(a * INV(), b * INV(), P());
        assert((a * INV()) * (b * INV()) == x * (INV() * INV())) by (nonlinear_arith) requires x == a * b;
    }
}

// reduced declarations of math/src/field/traits.rs (the methods under contract)
pub trait FieldElement: Sized {
    const ZERO: Self;
    spec fn wf_e(self) -> bool;
    fn double(self) -> (r: Self)
        requires self.wf_e();
    fn square(self) -> (r: Self)
        requires self.wf_e();
}
pub trait ExtensibleField<const N: usize>: Sized {
    spec fn wf_x(a: [Self; N]) -> bool;
    spec fn wf_b(b: Self) -> bool;
    fn mul(a: [Self; N], b: [Self; N]) -> (r: [Self; N])
        requires Self::wf_x(a), Self::wf_x(b);
    fn mul_base(a: [Self; N], b: Self) -> (r: [Self; N])
        requires Self::wf_x(a), Self::wf_b(b);
    // (postcondition through a spec fn: Verus cannot resolve an `ensures` written on the impl of an associated
    // function named like a method of another trait implemented for the same type - FieldElement::square)
    spec fn square_post(a: [Self; N], r: [Self; N]) -> bool;
    fn square(a: [Self; N]) -> (r: [Self; N])
        requires Self::wf_x(a),
        ensures Self::square_post(a, r);
    fn frobenius(x: [Self; N]) -> (r: [Self; N])
        requires Self::wf_x(x);
}
impl vstd::std_specs::ops::NegSpecImpl for BaseElement {
    open spec fn obeys_neg_spec() -> bool { false }
    open spec fn neg_req(self) -> bool { wf(self) }
    open spec fn neg_spec(self) -> BaseElement { arbitrary() }
}

impl vstd::std_specs::ops::AddSpecImpl<BaseElement> for BaseElement {
    open spec fn obeys_add_spec() -> bool { false }
    open spec fn add_req(self, rhs: BaseElement) -> bool { wf(self) && wf(rhs) }
    open spec fn add_spec(self, rhs: BaseElement) -> BaseElement { arbitrary() }
}
impl vstd::std_specs::ops::SubSpecImpl<BaseElement> for BaseElement {
    open spec fn obeys_sub_spec() -> bool { false }
    open spec fn sub_req(self, rhs: BaseElement) -> bool { wf(self) && wf(rhs) }
    open spec fn sub_spec(self, rhs: BaseElement) -> BaseElement { arbitrary() }
}
impl vstd::std_specs::ops::MulSpecImpl<BaseElement> for BaseElement {
    open spec fn obeys_mul_spec() -> bool { false }
    open spec fn mul_req(self, rhs: BaseElement) -> bool { wf(self) && wf(rhs) }
    open spec fn mul_spec(self, rhs: BaseElement) -> BaseElement { arbitrary() }
}
// ASSUMED: the trait constant ZERO = new(0) has inner value 0 (Verus cannot evaluate a trait const that is
// initialised by an exec call; Kani obligation C10.f64.constants.zero_one checks it on the real code)
pub proof fn axiom_zero()
    ensures (<BaseElement as FieldElement>::ZERO).0 == 0,
{ admit(); }

// multiplication in F_p[phi] / (phi^3 - phi - 1) on coefficient triples (the formulas of the ext3 mul contract)
pub open spec fn m3(a: (int, int, int), b: (int, int, int)) -> (int, int, int) {
    ((a.0 * b.0 + a.1 * b.2 + a.2 * b.1) % P(),
     (a.0 * b.1 + a.1 * b.0 + a.1 * b.2 + a.2 * b.1 + a.2 * b.2) % P(),
     (a.0 * b.2 + a.1 * b.1 + a.2 * b.0 + a.2 * b.2) % P())
}
pub open spec fn pow3(b: (int, int, int), e: nat) -> (int, int, int)
    decreases e
{
    if e == 0 { (1int, 0int, 0int) } else if e % 2 == 0 { let h = pow3(b, e / 2); m3(h, h) } else { m3(b, pow3(b, (e - 1) as nat)) }
}
// the cubic Frobenius constants: phi^p = (FA, FC, FE), phi^(2p) = (FB, FD, FF)
pub open spec fn FA() -> int { 10615703402128488253 }
pub open spec fn FB() -> int { 6700183068485440220 }
pub open spec fn FC() -> int { 10050274602728160328 }
pub open spec fn FD() -> int { 14531223735771536287 }
pub open spec fn FE() -> int { 11746561000929144102 }
pub open spec fn FF() -> int { 8396469466686423992 }
"""

GH_RED_1 = r'''
    proof {
        let ec: u64 = if e { 1u64 } else { 0u64 };
        assert(e as u64 == ec);
        lemma_qm(xl, a, ec, b);
        assert(x as int == xh as int * R() + xl as int) by {
            assert(x == add(((x >> 64) as u64 as u128) << 64, (x as u64) as u128)) by (bit_vector);
            assert(((x >> 64) as u64 as u128) << 64 == ((x >> 64) as u64 as u128) * 0x1_0000_0000_0000_0000u128) by (bit_vector);
        }
        assert((b as int) < P()) by (nonlinear_arith)
            requires a as int * P() == b as int * R() + xl as int, 0 <= (a as int) < R(), 0 <= xl as int, R() > 0, P() > 0;
        assert((xh as int) < P()) by (nonlinear_arith)
            requires x as int == xh as int * R() + xl as int, (x as int) < P() * R(), 0 <= xl as int, R() > 0;
    }
'''
GH_RED_2 = r'''
    proof {
        let adj = 0u32.wrapping_sub(c as u32) as u64;
        assert(adj == (if c { 0xffff_ffffu64 } else { 0u64 }));
        let res = r.wrapping_sub(adj);
        assert(res as int == (if c { xh as int - b as int + P() } else { xh as int - b as int }));
        let k: int = if c { 1 } else { 0 };
        assert(res as int * R() == x as int - a as int * P() + k * P() * R()) by (nonlinear_arith)
            requires res as int == xh as int - b as int + k * P(),
                     x as int == xh as int * R() + xl as int,
                     a as int * P() == b as int * R() + xl as int;
        assert((res as int * R()) % P() == (x as int) % P()) by {
            let t = k * R() - a as int;
            assert(res as int * R() == x as int + t * P()) by (nonlinear_arith)
                requires res as int * R() == x as int - a as int * P() + k * P() * R(), t == k * R() - a as int;
            vstd::arithmetic::div_mod::lemma_mod_multiples_vanish(t, x as int, P());
        }
    }
'''
GH_INT_1 = r'''
    proof {
        let ec: u64 = if e { 1u64 } else { 0u64 };
        assert(e as u64 == ec);
        lemma_qm(x, a, ec, b);
        assert((b as int) < P()) by (nonlinear_arith)
            requires a as int * P() == b as int * R() + x as int, 0 <= (a as int) < R(), 0 <= x as int, R() > 0, P() > 0;
    }
'''
GH_INT_2 = r'''
    proof {
        let adj = 0u32.wrapping_sub(c as u32) as u64;
        assert(adj == (if c { 0xffff_ffffu64 } else { 0u64 }));
        let res = r.wrapping_sub(adj);
        assert(res as int == (if c { 0 - b as int + P() } else { 0 - b as int }));
        let k: int = if c { 1 } else { 0 };
        assert(res as int * R() == x as int - a as int * P() + k * P() * R()) by (nonlinear_arith)
            requires res as int == 0 - b as int + k * P(),
                     a as int * P() == b as int * R() + x as int;
        assert((res as int * R()) % P() == (x as int) % P()) by {
            let t = k * R() - a as int;
            assert(res as int * R() == x as int + t * P()) by (nonlinear_arith)
                requires res as int * R() == x as int - a as int * P() + k * P() * R(), t == k * R() - a as int;
            vstd::arithmetic::div_mod::lemma_mod_multiples_vanish(t, x as int, P());
        }
    }
'''

EXT2_EXTRA = r"""
    open spec fn wf_x(a: [BaseElement; 2]) -> bool { wf(a[0]) && wf(a[1]) }
    open spec fn wf_b(b: BaseElement) -> bool { wf(b) }
    // (a0 + a1 phi)^2 with phi^2 = phi - 2
    open spec fn square_post(a: [BaseElement; 2], r: [BaseElement; 2]) -> bool {
        wf(r[0]) && wf(r[1])
        && val(r[0]) == (val(a[0]) * val(a[0]) - 2 * (val(a[1]) * val(a[1]))) % P()
        && val(r[1]) == (2 * (val(a[0]) * val(a[1])) + val(a[1]) * val(a[1])) % P()
    }
"""
EXT2_MUL_PROOF = r"""
        proof {
            let (a0, a1, b0, b1) = (val(a[0]), val(a[1]), val(b[0]), val(b[1]));
            // r0 = a0b0 - 2 * (a1b1 mod P)  ;  r1 = (a0 + a1)(b0 + b1) - a0b0
            vstd::arithmetic::div_mod::lemma_mul_mod_noop_right(2, a1 * b1, P());
            vstd::arithmetic::div_mod::lemma_sub_mod_noop(a0 * b0, 2 * (a1 * b1), P());
            vstd::arithmetic::div_mod::lemma_mul_mod_noop(a0 + a1, b0 + b1, P());
            vstd::arithmetic::div_mod::lemma_sub_mod_noop((a0 + a1) * (b0 + b1), a0 * b0, P());
            assert((a0 + a1) * (b0 + b1) - a0 * b0 == a0 * b1 + a1 * b0 + a1 * b1) by (nonlinear_arith);
        }"""

EXT3_EXTRA = r"""
    open spec fn wf_x(a: [BaseElement; 3]) -> bool { wf(a[0]) && wf(a[1]) && wf(a[2]) }
    open spec fn wf_b(b: BaseElement) -> bool { wf(b) }
    // (a0 + a1 phi + a2 phi^2)^2 with phi^3 = phi + 1
    open spec fn square_post(a: [BaseElement; 3], r: [BaseElement; 3]) -> bool {
        wf(r[0]) && wf(r[1]) && wf(r[2])
        && val(r[0]) == (val(a[0]) * val(a[0]) + 2 * (val(a[1]) * val(a[2]))) % P()
        && val(r[1]) == (2 * (val(a[0]) * val(a[1]) + val(a[1]) * val(a[2])) + val(a[2]) * val(a[2])) % P()
        && val(r[2]) == (2 * (val(a[0]) * val(a[2])) + val(a[1]) * val(a[1]) + val(a[2]) * val(a[2])) % P()
    }
"""
EXT3_MUL_PROOF = r"""
        proof {
            use vstd::arithmetic::div_mod::*;
            let (a0, a1, a2, b0, b1, b2) = (val(a[0]), val(a[1]), val(a[2]), val(b[0]), val(b[1]), val(b[2]));
            let (e00, e11, e22) = (a0 * b0, a1 * b1, a2 * b2);
            let m01 = (a0 + a1) * (b0 + b1);
            let m02 = (a0 + a2) * (b0 + b2);
            let m12 = (a1 + a2) * (b1 + b2);
            // expand the products of sums once; afterwards every identity is linear in the a_i * b_j
            assert(m01 == a0 * b0 + a0 * b1 + a1 * b0 + a1 * b1) by (nonlinear_arith) requires m01 == (a0 + a1) * (b0 + b1);
            assert(m02 == a0 * b0 + a0 * b2 + a2 * b0 + a2 * b2) by (nonlinear_arith) requires m02 == (a0 + a2) * (b0 + b2);
            assert(m12 == a1 * b1 + a1 * b2 + a2 * b1 + a2 * b2) by (nonlinear_arith) requires m12 == (a1 + a2) * (b1 + b2);
            // the three Karatsuba-style products of sums
            lemma_mul_mod_noop(a0 + a1, b0 + b1, P());
            lemma_mul_mod_noop(a0 + a2, b0 + b2, P());
            lemma_mul_mod_noop(a1 + a2, b1 + b2, P());
            // a0b0 - a1b1
            lemma_sub_mod_noop(e00, e11, P());
            // r0 = m12 + (e00 - e11) - e22
            lemma_add_mod_noop(m12, e00 - e11, P());
            lemma_sub_mod_noop(m12 + (e00 - e11), e22, P());
            assert(m12 + (e00 - e11) - e22 == a0 * b0 + a1 * b2 + a2 * b1);
            // r1 = m01 + m12 - 2 e11 - e00
            lemma_mul_mod_noop_right(2, e11, P());
            lemma_add_mod_noop(m01, m12, P());
            lemma_sub_mod_noop(m01 + m12, 2 * e11, P());
            lemma_sub_mod_noop(m01 + m12 - 2 * e11, e00, P());
            assert(m01 + m12 - 2 * e11 - e00 == a0 * b1 + a1 * b0 + a1 * b2 + a2 * b1 + a2 * b2);
            // r2 = m02 - (e00 - e11)
            lemma_sub_mod_noop(m02, e00 - e11, P());
            assert(m02 - (e00 - e11) == a0 * b2 + a1 * b1 + a2 * b0 + a2 * b2);
        }"""

EPILOGUE = r'''
// the extracted constants are the documented ones
proof fn thm_constants()
    ensures M as int == P(), (R2 as int) % P() == (R() * R()) % P(), (R2 as int) < P(),
{
    assert((R2 as int) % P() == (R() * R()) % P()) by (compute);
}

// the field element new(v) stands for is v mod p
pub proof fn lemma_val_new(r0: int, v: int)
    requires 0 <= r0 < P(), 0 <= v, (r0 * R()) % P() == (v * R2 as int) % P(),
    ensures vali(r0) == v % P(),
{
    use vstd::arithmetic::div_mod::*;
    thm_constants();
    lemma_mul_mod_noop_right(v, R2 as int, P());
    lemma_mul_mod_noop_right(v, R() * R(), P());
    assert(v * (R() * R()) == (v * R()) * R()) by (nonlinear_arith);
    let w = (v * R()) % P();
    lemma_mul_mod_noop_left(v * R(), R(), P());
    lemma_mod_pos_bound(v * R(), P());
    lemma_cancel_r(r0, w);
    lemma_mul_mod_noop_left(v * R(), INV(), P());
    assert((v * R()) * INV() == v * (R() * INV())) by (nonlinear_arith);
    lemma_mul_mod_noop_right(v, R() * INV(), P());
    assert((R() * INV()) % P() == 1) by (compute);
}
pub proof fn lemma_new_const(c: int)
    requires 0 <= c < P(),
    ensures forall|e: BaseElement| #![trigger val(e)] wf(e) && (e.0 as int * R()) % P() == (c * R2 as int) % P() ==> val(e) == c,
{
    assert forall|e: BaseElement| #![trigger val(e)] wf(e) && (e.0 as int * R()) % P() == (c * R2 as int) % P() implies val(e) == c by {
        lemma_val_new(e.0 as int, c);
        vstd::arithmetic::div_mod::lemma_small_mod(c as nat, P() as nat);
    }
}
// C11: the constants of the cubic Frobenius are phi^p and phi^(2p) in F_p[phi]/(phi^3 - phi - 1)
proof fn thm_frobenius3_constants()
    ensures pow3((0, 1, 0), P() as nat) == (FA(), FC(), FE()),
            m3((FA(), FC(), FE()), (FA(), FC(), FE())) == (FB(), FD(), FF()),
{
    assert(pow3((0, 1, 0), P() as nat) == (FA(), FC(), FE())) by (compute);
    assert(m3((FA(), FC(), FE()), (FA(), FC(), FE())) == (FB(), FD(), FF())) by (compute);
}

// canonical encoding: as_int(new(v)) == v for every v < M
fn thm_roundtrip(v: u64) -> (r: u64)
    requires (v as int) < P(),
    ensures r == v,
{
    let e = BaseElement::new(v);
    let r = e.as_int();
    proof {
        thm_constants();
        let e0 = e.0 as int;
        assert((e0 * R()) % P() == ((v as int * R()) * R()) % P()) by {
            vstd::arithmetic::div_mod::lemma_mul_mod_noop_right(v as int, R2 as int, P());
            vstd::arithmetic::div_mod::lemma_mul_mod_noop_right(v as int, R() * R(), P());
            assert(v as int * (R() * R()) == (v as int * R()) * R()) by (nonlinear_arith);
        }
        let w = (v as int * R()) % P();
        assert((w * R()) % P() == ((v as int * R()) * R()) % P()) by {
            vstd::arithmetic::div_mod::lemma_mul_mod_noop_left(v as int * R(), R(), P());
        }
        assert(0 <= w < P()) by { vstd::arithmetic::div_mod::lemma_mod_pos_bound(v as int * R(), P()); }
        lemma_cancel_r(e0, w);
        assert((r as int * R()) % P() == (v as int * R()) % P()) by {
            vstd::arithmetic::div_mod::lemma_small_mod(e0 as nat, P() as nat);
            vstd::arithmetic::div_mod::lemma_mod_twice(v as int * R(), P());
        }
        lemma_cancel_r(r as int, v as int);
    }
    r
}
'''

UNIT = {
    "name": "f64_core",
    "props": ["C10", "C11"],
    "prelude": PRELUDE,
    "items": [
        {"kind": "const", "file": F, "name": "M", "pub": True},
        {"kind": "const", "file": F, "name": "R2", "pub": True},
        {"kind": "struct", "file": F, "name": "BaseElement", "pubfields": True, "after": OPS_SPECS},
        {"kind": "fn", "file": F, "name": "mont_red_cst", "ret": "r",
         "fnlabel": "f64 mont_red_cst", "ob": "C10.f64.mont_red_cst.contract",
         "spec": "requires (x as int) < P() * R(),\nensures (r as int) < P(), (r as int * R()) % P() == (x as int) % P(),",
         "ghost": [{"at": "after", "anchor": "let b =", "text": GH_RED_1},
                   {"at": "after", "anchor": "let (r, c) =", "text": GH_RED_2}]},
        {"kind": "fn", "file": F, "name": "mont_to_int", "ret": "res",
         "fnlabel": "f64 mont_to_int", "ob": "C10.f64.mont_to_int.contract",
         "spec": "ensures (res as int) < P(), (res as int * R()) % P() == (x as int) % P(),",
         "ghost": [{"at": "after", "anchor": "let b =", "text": GH_INT_1},
                   {"at": "after", "anchor": "let (r, c) =", "text": GH_INT_2}]},
        {"kind": "impl", "file": F, "header": "impl BaseElement", "methods": [
            {"name": "new", "ret": "r", "fnlabel": "f64 BaseElement::new", "ob": "C10.f64.new.contract",
             "spec": "ensures (r.0 as int) < P(), (r.0 as int * R()) % P() == (value as int * R2 as int) % P(),",
             "ghost": [{"at": "start", "text": r'''
        proof {
            assert((value as int * R2 as int) < P() * R()) by (nonlinear_arith)
                requires 0 <= value as int, (value as int) < R(), 0 <= (R2 as int), (R2 as int) < P();
            assert(0 <= value as int * R2 as int) by (nonlinear_arith) requires 0 <= value as int, 0 <= R2 as int;
        }'''}]},
            {"name": "as_int", "ret": "r", "fnlabel": "f64 BaseElement::as_int", "ob": "C10.f64.as_int.contract",
             "spec": "ensures (r as int) < P(), (r as int * R()) % P() == (self.0 as int) % P(),"},
        ]},

        {"kind": "impl", "file": F, "header": "impl Add for BaseElement", "out_header": "impl core::ops::Add for BaseElement",
         "extra": "type Output = Self;\n", "methods": [
            {"name": "add", "ret": "r", "fnlabel": "f64 <BaseElement as Add>::add", "ob": "C10.f64.add.contract",
             "spec": "ensures wf(r), r.0 as int == (self.0 as int + rhs.0 as int) % P(),\n    val(r) == (val(self) + val(rhs)) % P(),",
             "ghost": [{"at": "start", "text": "proof { lemma_val_add_forall(self.0 as int, rhs.0 as int); vstd::arithmetic::div_mod::lemma_mod_twice(self.0 as int + rhs.0 as int, P()); }"}]}]},
        {"kind": "impl", "file": F, "header": "impl Sub for BaseElement", "out_header": "impl core::ops::Sub for BaseElement",
         "extra": "type Output = Self;\n", "methods": [
            {"name": "sub", "ret": "r", "fnlabel": "f64 <BaseElement as Sub>::sub", "ob": "C10.f64.sub.contract",
             "spec": "ensures wf(r), r.0 as int == (self.0 as int - rhs.0 as int) % P(),\n    val(r) == (val(self) - val(rhs)) % P(),",
             "ghost": [{"at": "start", "text": "proof { lemma_val_sub_forall(self.0 as int, rhs.0 as int); vstd::arithmetic::div_mod::lemma_mod_twice(self.0 as int - rhs.0 as int, P()); }"}]}]},
        {"kind": "impl", "file": F, "header": "impl Mul for BaseElement", "out_header": "impl core::ops::Mul for BaseElement",
         "extra": "type Output = Self;\n", "methods": [
            {"name": "mul", "ret": "r", "fnlabel": "f64 <BaseElement as Mul>::mul", "ob": "C10.f64.mul.contract",
             "spec": "ensures wf(r), (r.0 as int * R()) % P() == (self.0 as int * rhs.0 as int) % P(),\n    val(r) == (val(self) * val(rhs)) % P(),",
             "ghost": [{"at": "start", "text": r"""
        proof {
            lemma_val_mul_forall(self.0 as int, rhs.0 as int);
            assert((self.0 as int * rhs.0 as int) < P() * R()) by (nonlinear_arith)
                requires 0 <= self.0 as int, (self.0 as int) < P(), 0 <= (rhs.0 as int), (rhs.0 as int) < P(), P() < R();
            assert(0 <= self.0 as int * rhs.0 as int) by (nonlinear_arith) requires 0 <= self.0 as int, 0 <= rhs.0 as int;
        }"""}]}]},

        {"kind": "impl", "file": F, "header": "impl FieldElement for BaseElement",
         "extra": "open spec fn wf_e(self) -> bool { wf(self) }\n",
         "consts": [{"name": "ZERO", "attrs": "#[verifier::external_body]\n",
                     "note": "value assumed by axiom_zero (Verus cannot evaluate a trait const initialised by an exec call); "
                             "cross-checked by Kani obligation C10.f64.constants.zero_one"}],
         "methods": [
            {"name": "square", "ret": "r", "fnlabel": "f64 FieldElement::square (default method at BaseElement)",
             "ob": "C10.f64.square.contract", "src_file": "math/src/field/traits.rs", "src_header": "trait FieldElement: ...",
             "spec": "ensures wf(r), val(r) == (val(self) * val(self)) % P(),"},
            {"name": "double", "ret": "r", "fnlabel": "f64 FieldElement::double", "ob": "C10.f64.double.contract",
             "spec": "ensures wf(r), r.0 as int == (2 * self.0 as int) % P(), val(r) == (2 * val(self)) % P(),",
             "ghost": [{"at": "start", "text": "proof { lemma_val_add_forall(self.0 as int, self.0 as int); }"},
                       {"at": "after", "anchor": "let ret =", "text": r"""
        proof {
            let x = self.0;
            assert(ret == (x as u128) * 2) by (bit_vector) requires ret == (x as u128) << 1;
        }"""},
                       {"at": "after", "anchor": "let (result, over) =", "text": r"""
        proof {
            assert(result as u128 + ((over as u128) << 64) == ret && over <= 1) by (bit_vector)
                requires result == ret as u64, over == (ret >> 64) as u64, ret < 0x2_0000_0000_0000_0000u128;
            assert(((over as u128) << 64) == (over as u128) * 0x1_0000_0000_0000_0000u128) by (bit_vector) requires over <= 1;
        }"""},
                       {"at": "after", "anchor": "let reduce =", "text": r"""
        proof {
            let ge: u64 = if result >= M { 1u64 } else { 0u64 };
            assert((result >= M) as u64 == ge);
            assert(reduce == (if over == 1 || result >= M { 1u64 } else { 0u64 })) by (bit_vector)
                requires reduce == over | ge, over <= 1, ge <= 1, ge == (if result >= M { 1u64 } else { 0u64 });
            // the doubled value is 2x = result + over * 2^64 < 2P; subtracting P once when needed lands in [0, P)
            let two_x = 2 * (self.0 as int);
            assert(two_x == result as int + over as int * R());
            if reduce == 1 {
                assert(M * reduce == M);
                vstd::arithmetic::div_mod::lemma_mod_multiples_vanish(-1, two_x, P());
                vstd::arithmetic::div_mod::lemma_small_mod((two_x - P()) as nat, P() as nat);
                assert(result.wrapping_sub(M) as int == two_x - P());
            } else {
                assert(M * reduce == 0);
                vstd::arithmetic::div_mod::lemma_small_mod(two_x as nat, P() as nat);
            }
            vstd::arithmetic::div_mod::lemma_mod_twice(two_x, P());
        }"""}]}]},
        {"kind": "impl", "file": F, "header": "impl Neg for BaseElement", "out_header": "impl core::ops::Neg for BaseElement",
         "extra": "type Output = Self;\n", "methods": [
            {"name": "neg", "ret": "r", "fnlabel": "f64 <BaseElement as Neg>::neg", "ob": "C10.f64.neg.contract",
             "spec": "ensures wf(r), val(r) == (0 - val(self)) % P(),",
             "ghost": [{"at": "start", "text": "proof { axiom_zero(); assert(vali(0) == 0) by (compute); }"}]}]},
        {"kind": "impl", "file": F, "header": "impl BaseElement", "methods": [
            {"name": "exp7", "ret": "r", "pub": True, "fnlabel": "f64 BaseElement::exp7", "ob": "C10.f64.exp7.contract",
             "spec": "requires wf(self),\nensures wf(r), val(r) == (((val(self) * val(self)) * val(self)) * ((val(self) * val(self)) * (val(self) * val(self)))) % P(),",
             "ghost": [{"at": "start", "text": r"""
        proof {
            let v = val(self);
            vstd::arithmetic::div_mod::lemma_mul_mod_noop(v * v, v * v, P());
            vstd::arithmetic::div_mod::lemma_mul_mod_noop_left(v * v, v, P());
            vstd::arithmetic::div_mod::lemma_mul_mod_noop((v * v) * v, (v * v) * (v * v), P());
        }"""}]}]},
        {"kind": "impl", "file": F, "header": "impl ExtensibleField<2> for BaseElement", "extra": EXT2_EXTRA, "methods": [
            {"name": "mul", "ret": "r", "fnlabel": "f64 <BaseElement as ExtensibleField<2>>::mul", "ob": "C10.f64.ext2.mul.contract",
             "spec": "ensures wf(r[0]), wf(r[1]),\n"
                     "    // (a0 + a1 phi)(b0 + b1 phi) with phi^2 = phi - 2\n"
                     "    val(r[0]) == (val(a[0]) * val(b[0]) - 2 * (val(a[1]) * val(b[1]))) % P(),\n"
                     "    val(r[1]) == (val(a[0]) * val(b[1]) + val(a[1]) * val(b[0]) + val(a[1]) * val(b[1])) % P(),",
             "ghost": [{"at": "start", "text": EXT2_MUL_PROOF}]},
            {"name": "mul_base", "ret": "r", "fnlabel": "f64 <BaseElement as ExtensibleField<2>>::mul_base", "ob": "C10.f64.ext2.mul_base.contract",
             "spec": "ensures wf(r[0]), wf(r[1]), val(r[0]) == (val(a[0]) * val(b)) % P(), val(r[1]) == (val(a[1]) * val(b)) % P(),"},
            {"name": "square", "ret": "r", "fnlabel": "f64 <BaseElement as ExtensibleField<2>>::square", "ob": "C10.f64.ext2.square.contract",
             "ghost": [{"at": "start", "text": r"""
        proof {
            use vstd::arithmetic::div_mod::*;
            let (a0, a1) = (val(a[0]), val(a[1]));
            lemma_mul_mod_noop_right(2, a1 * a1, P());
            lemma_sub_mod_noop(a0 * a0, 2 * (a1 * a1), P());
            lemma_mul_mod_noop_right(2, a0 * a1, P());
            lemma_add_mod_noop(2 * (a0 * a1), a1 * a1, P());
        }"""}]},
            {"name": "frobenius", "ret": "r", "fnlabel": "f64 <BaseElement as ExtensibleField<2>>::frobenius", "ob": "C10.f64.ext2.frobenius.contract",
             "spec": "ensures wf(r[0]), wf(r[1]),\n"
                     "    // conjugation phi -> 1 - phi of x^2 - x + 2\n"
                     "    val(r[0]) == (val(x[0]) + val(x[1])) % P(), val(r[1]) == (0 - val(x[1])) % P(),"},
        ]},

        {"kind": "impl", "file": F, "header": "impl ExtensibleField<3> for BaseElement", "extra": EXT3_EXTRA, "methods": [
            {"name": "mul", "ret": "r", "fnlabel": "f64 <BaseElement as ExtensibleField<3>>::mul", "ob": "C10.f64.ext3.mul.contract",
             "spec": "ensures wf(r[0]), wf(r[1]), wf(r[2]),\n"
                     "    // (a0 + a1 phi + a2 phi^2)(b0 + b1 phi + b2 phi^2) with phi^3 = phi + 1\n"
                     "    val(r[0]) == (val(a[0]) * val(b[0]) + val(a[1]) * val(b[2]) + val(a[2]) * val(b[1])) % P(),\n"
                     "    val(r[1]) == (val(a[0]) * val(b[1]) + val(a[1]) * val(b[0]) + val(a[1]) * val(b[2]) + val(a[2]) * val(b[1]) + val(a[2]) * val(b[2])) % P(),\n"
                     "    val(r[2]) == (val(a[0]) * val(b[2]) + val(a[1]) * val(b[1]) + val(a[2]) * val(b[0]) + val(a[2]) * val(b[2])) % P(),",
             "ghost": [{"at": "start", "text": EXT3_MUL_PROOF}]},
            {"name": "square", "ret": "r", "fnlabel": "f64 <BaseElement as ExtensibleField<3>>::square", "ob": "C10.f64.ext3.square.contract",
             "ghost": [{"at": "start", "text": r"""
        proof {
            use vstd::arithmetic::div_mod::*;
            let (a0, a1, a2) = (val(a[0]), val(a[1]), val(a[2]));
            lemma_mul_mod_noop_right(2, a1 * a2, P());
            lemma_add_mod_noop(a0 * a0, 2 * (a1 * a2), P());
            lemma_add_mod_noop(a0 * a1, a1 * a2, P());
            lemma_mul_mod_noop_right(2, a0 * a1 + a1 * a2, P());
            lemma_add_mod_noop(2 * (a0 * a1 + a1 * a2), a2 * a2, P());
            lemma_mul_mod_noop_right(2, a0 * a2, P());
            lemma_add_mod_noop(2 * (a0 * a2), a1 * a1, P());
            lemma_add_mod_noop(2 * (a0 * a2) + a1 * a1, a2 * a2, P());
        }"""}]},
            {"name": "frobenius", "ret": "r", "fnlabel": "f64 <BaseElement as ExtensibleField<3>>::frobenius", "ob": "C10.f64.ext3.frobenius.contract",
             "spec": "ensures wf(r[0]), wf(r[1]), wf(r[2]),\n"
                     "    // x0 + x1 phi^p + x2 phi^(2p) with phi^p = (FA, FC, FE), phi^(2p) = (FB, FD, FF) (thm_frobenius3_constants)\n"
                     "    val(r[0]) == (val(x[0]) + FA() * val(x[1]) + FB() * val(x[2])) % P(),\n"
                     "    val(r[1]) == (FC() * val(x[1]) + FD() * val(x[2])) % P(),\n"
                     "    val(r[2]) == (FE() * val(x[1]) + FF() * val(x[2])) % P(),",
             "ghost": [{"at": "start", "text": r"""
        proof {
            use vstd::arithmetic::div_mod::*;
            let (x0, x1, x2) = (val(x[0]), val(x[1]), val(x[2]));
            lemma_new_const(FA()); lemma_new_const(FB()); lemma_new_const(FC());
            lemma_new_const(FD()); lemma_new_const(FE()); lemma_new_const(FF());
            lemma_add_mod_noop_right(x0, FA() * x1, P());
            lemma_add_mod_noop(x0 + FA() * x1, FB() * x2, P());
            lemma_add_mod_noop(FC() * x1, FD() * x2, P());
            lemma_add_mod_noop(FE() * x1, FF() * x2, P());
        }"""}]},
            {"name": "mul_base", "ret": "r", "fnlabel": "f64 <BaseElement as ExtensibleField<3>>::mul_base", "ob": "C10.f64.ext3.mul_base.contract",
             "spec": "ensures wf(r[0]), wf(r[1]), wf(r[2]), val(r[0]) == (val(a[0]) * val(b)) % P(), val(r[1]) == (val(a[1]) * val(b)) % P(), val(r[2]) == (val(a[2]) * val(b)) % P(),"},
        ]},
    ],
    "epilogue": EPILOGUE,
    "theorems": {"thm_constants": "C11.f64.constants.M_R2", "thm_roundtrip": "C11.f64.as_int_new.identity",
                 "thm_frobenius3_constants": "C11.f64.ext3.frobenius_constants.pth_power"},
    "assumptions": [
        "Verus: `x as u64` truncation and shifts as specified by vstd; overflowing_add/sub specified by assume_specification "
        "(cross-checked bit-precisely by Kani harness k_std_overflowing_specs)",
        "axiom_zero: FieldElement::ZERO (= new(0), an external_body trait const for Verus) has inner value 0; "
        "checked on the real code by Kani obligation C10.f64.constants.zero_one",
    ],
}
