//# unit: c29_validate
//# crate: prover
//# mount: prover/src/trace/mod.rs
//# modpath: trace
//# assets: tiny models
//# props: C29
//# subst: air/src/air/mod.rs | use alloc::{collections::BTreeMap, vec::Vec}; | use alloc::vec::Vec; #[cfg(kani)] use utils::verif_models::BTreeMap; #[cfg(not(kani))] use alloc::collections::BTreeMap;
//! C29 — `Trace::validate` agrees with an independent evaluation of the same AIR: a mock AIR over
//! F_17 (one column, constraint next - cur - k(step) = 0 with a periodic column k of cycle 2, one
//! single assertion, trace length 8). `validate` reports rejection by panicking, so the
//! equivalence is two obligations read per check: (i) every satisfying trace passes without any
//! failed check; (ii) for an unsatisfying trace the marker obligation after `validate` must be
//! unreachable (the panics inside `validate` are the specified behaviour there).
#![allow(unused_imports, dead_code)]
use alloc::vec::Vec;

use air::{AirContext, Assertion, BatchingMethod, FieldExtension, ProofOptions, TransitionConstraintDegree};
use math::verif_tinyfield::{Tiny, P};
use utils::{vcheck, vreach, verif_support as vs};

use super::*;

fn any_tiny() -> Tiny {
    let v = vs::any_u32();
    vs::assume(v < P);
    Tiny(v)
}

pub struct Pub(Tiny, Tiny, Tiny);
impl math::ToElements<Tiny> for Pub {
    fn to_elements(&self) -> Vec<Tiny> {
        alloc::vec![self.0, self.1, self.2]
    }
}

/// one column; constraint next - cur - k(step) == 0 where k is a periodic column [k0, k1];
/// assertion col0[0] == start; `exemptions` last steps exempt
pub struct MockAir {
    ctx: AirContext<Tiny>,
    start: Tiny,
    k: [Tiny; 2],
}
impl Air for MockAir {
    type BaseField = Tiny;
    type PublicInputs = Pub;
    fn new(trace_info: TraceInfo, pi: Pub, options: ProofOptions) -> Self {
        let degrees = alloc::vec![TransitionConstraintDegree::with_cycles(1, alloc::vec![2])];
        MockAir { ctx: AirContext::new(trace_info, degrees, 1, options), start: pi.0, k: [pi.1, pi.2] }
    }
    fn context(&self) -> &AirContext<Tiny> {
        &self.ctx
    }
    fn evaluate_transition<E: FieldElement<BaseField = Tiny>>(
        &self,
        frame: &EvaluationFrame<E>,
        periodic_values: &[E],
        result: &mut [E],
    ) {
        result[0] = frame.next()[0] - frame.current()[0] - periodic_values[0];
    }
    fn get_assertions(&self) -> Vec<Assertion<Tiny>> {
        alloc::vec![Assertion::single(0, 0, self.start)]
    }
    fn get_periodic_column_values(&self) -> Vec<Vec<Tiny>> {
        alloc::vec![alloc::vec![self.k[0], self.k[1]]]
    }
}

fn options() -> ProofOptions {
    ProofOptions::new(1, 2, 0, FieldExtension::None, 2, 1, BatchingMethod::Linear, BatchingMethod::Linear)
}

//# harness: fn=Trace::validate (accepts every satisfying trace); label=bounded(F_17, mock AIR, trace length 8, all (start, k0, k1)); tier=quick; timeout=900
#[cfg_attr(kani, kani::proof)]
#[cfg_attr(kani, kani::unwind(12))]
#[cfg_attr(kani, kani::stub(alloc::fmt::format, vs::fake_format))]
pub fn k_c29_validate_accepts_satisfying() {
    let (start, k0, k1) = (any_tiny(), any_tiny(), any_tiny());
    let mut col = Vec::new();
    let mut v = start;
    let mut i = 0;
    while i < 8 {
        col.push(v);
        v = v + if i % 2 == 0 { k0 } else { k1 };
        i += 1;
    }
    let trace = TraceTable::init(alloc::vec![col]);
    let air = MockAir::new(trace.info().clone(), Pub(start, k0, k1), options());
    trace.validate::<MockAir, Tiny>(&air, None);
    vreach!("C29.validate.accepts.reach");
}

//# harness: fn=Trace::validate (rejects every unsatisfying trace); label=bounded(F_17, mock AIR, trace length 8, one corrupted cell at a symbolic position); tier=quick; panics=ignore; replay=no; timeout=900
#[cfg_attr(kani, kani::proof)]
#[cfg_attr(kani, kani::unwind(12))]
#[cfg_attr(kani, kani::stub(alloc::fmt::format, vs::fake_format))]
pub fn k_c29_validate_rejects_unsatisfying() {
    let (start, k0, k1) = (any_tiny(), any_tiny(), any_tiny());
    let mut col = Vec::new();
    let mut v = start;
    let mut i = 0;
    while i < 8 {
        col.push(v);
        v = v + if i % 2 == 0 { k0 } else { k1 };
        i += 1;
    }
    // corrupt one cell: cell 0 breaks the assertion (and the first transition), cells 1..=7 break
    // the transition into them (with one exemption only the wrap-around step 7 -> 0 is exempt)
    let pos = vs::any_usize();
    vs::assume(pos <= 7);
    let delta = any_tiny();
    vs::assume(delta != Tiny::ZERO);
    col[pos] = col[pos] + delta;
    let trace = TraceTable::init(alloc::vec![col]);
    let air = MockAir::new(trace.info().clone(), Pub(start, k0, k1), options());
    trace.validate::<MockAir, Tiny>(&air, None);
    // reaching this point means validate accepted a trace the independent checker rejects
    vcheck!("C29.validate.accepted_unsatisfying_trace", false);
}

//# harness: fn=TraceTable::init, TraceTable::new + fill; label=bounded(width 2, length 8, symbolic start values); tier=quick; timeout=600
#[cfg_attr(kani, kani::proof)]
#[cfg_attr(kani, kani::unwind(12))]
#[cfg_attr(kani, kani::stub(alloc::fmt::format, vs::fake_format))]
pub fn k_c29_trace_table_builders_agree() {
    let (a, b) = (any_tiny(), any_tiny());
    // rows: state[0] doubles minus b, state[1] accumulates
    let mut c0 = Vec::new();
    let mut c1 = Vec::new();
    let (mut x, mut y) = (a, b);
    let mut i = 0;
    while i < 8 {
        c0.push(x);
        c1.push(y);
        let nx = x + x - b;
        let ny = y + x;
        x = nx;
        y = ny;
        i += 1;
    }
    let t_init = TraceTable::init(alloc::vec![c0, c1]);
    let mut t_fill = TraceTable::<Tiny>::new(2, 8);
    t_fill.fill(
        |state| {
            state[0] = a;
            state[1] = b;
        },
        |_, state| {
            let nx = state[0] + state[0] - b;
            let ny = state[1] + state[0];
            state[0] = nx;
            state[1] = ny;
        },
    );
    let mut same = true;
    let mut r = 0;
    while r < 8 {
        same = same && t_init.get(0, r) == t_fill.get(0, r) && t_init.get(1, r) == t_fill.get(1, r);
        r += 1;
    }
    vcheck!("C29.trace_table.fill_equals_init", same);
    vreach!("C29.builders.reach");
}

// (TraceTable::fragments / TraceTableFragment::fill are NOT under contract: CBMC aborts ("out of memory") on the
// vector of mutable column chunks even with concrete start values; only init vs fill is compared)

/// second mock AIR: the same transition constraint with THREE exempt steps (transitions 5 -> 6, 6 -> 7 and
/// 7 -> 0 are not checked, so cells 6 and 7 are constrained by no transition), a single assertion on cell 0, a
/// periodic assertion on cells 2 and 6 and a sequence assertion on cells 3 and 7: cell 6 is constrained only as
/// the *second* step of the periodic assertion, cell 7 only as the second step of the sequence assertion
pub struct MockAir2 {
    ctx: AirContext<Tiny>,
    start: Tiny,
    k: [Tiny; 2],
    per: Tiny,
    seq: [Tiny; 2],
}
pub struct Pub2(Tiny, Tiny, Tiny, Tiny, Tiny, Tiny);
impl math::ToElements<Tiny> for Pub2 {
    fn to_elements(&self) -> Vec<Tiny> {
        alloc::vec![self.0, self.1, self.2, self.3, self.4, self.5]
    }
}
impl Air for MockAir2 {
    type BaseField = Tiny;
    type PublicInputs = Pub2;
    fn new(trace_info: TraceInfo, pi: Pub2, options: ProofOptions) -> Self {
        let degrees = alloc::vec![TransitionConstraintDegree::with_cycles(1, alloc::vec![2])];
        let ctx = AirContext::new(trace_info, degrees, 5, options).set_num_transition_exemptions(3);
        MockAir2 { ctx, start: pi.0, k: [pi.1, pi.2], per: pi.3, seq: [pi.4, pi.5] }
    }
    fn context(&self) -> &AirContext<Tiny> {
        &self.ctx
    }
    fn evaluate_transition<E: FieldElement<BaseField = Tiny>>(
        &self,
        frame: &EvaluationFrame<E>,
        periodic_values: &[E],
        result: &mut [E],
    ) {
        result[0] = frame.next()[0] - frame.current()[0] - periodic_values[0];
    }
    fn get_assertions(&self) -> Vec<Assertion<Tiny>> {
        alloc::vec![
            Assertion::single(0, 0, self.start),
            Assertion::periodic(0, 2, 4, self.per),
            Assertion::sequence(0, 3, 4, alloc::vec![self.seq[0], self.seq[1]]),
        ]
    }
    fn get_periodic_column_values(&self) -> Vec<Vec<Tiny>> {
        alloc::vec![alloc::vec![self.k[0], self.k[1]]]
    }
}

fn honest_column(start: Tiny, k0: Tiny, k1: Tiny) -> Vec<Tiny> {
    let mut col = Vec::new();
    let mut v = start;
    let mut i = 0;
    while i < 8 {
        col.push(v);
        v = v + if i % 2 == 0 { k0 } else { k1 };
        i += 1;
    }
    col
}
// concrete start / increments (the first mock AIR's harnesses range over all of them); symbolic are the cells the
// multi-step assertions alone constrain and the asserted values
const START: Tiny = Tiny(3);
const K0: Tiny = Tiny(5);
const K1: Tiny = Tiny(11);

//# harness: fn=Trace::validate (three exemptions, periodic and sequence assertions: accepts every satisfying trace); label=bounded(F_17, mock AIR 2, trace length 8; cell 7 arbitrary, cell 6 equal to cell 2); tier=quick; uses=honest_column; timeout=900
#[cfg_attr(kani, kani::proof)]
#[cfg_attr(kani, kani::unwind(12))]
#[cfg_attr(kani, kani::stub(alloc::fmt::format, vs::fake_format))]
pub fn k_c29_validate2_accepts_satisfying() {
    let mut col = honest_column(START, K0, K1);
    // no transition constrains cells 6 and 7: the periodic assertion forces cell 6 == cell 2, the sequence
    // assertion names whatever cell 7 holds
    col[6] = col[2];
    col[7] = any_tiny();
    let (per, a3, a7) = (col[2], col[3], col[7]);
    let trace = TraceTable::init(alloc::vec![col]);
    let air = MockAir2::new(trace.info().clone(), Pub2(START, K0, K1, per, a3, a7), options());
    trace.validate::<MockAir2, Tiny>(&air, None);
    vreach!("C29.validate2.accepts.reach");
}

//# harness: fn=Trace::validate (violation only at the second step of a periodic assertion); label=bounded(F_17, mock AIR 2, trace length 8, cell 6 differs from the periodically asserted value); tier=quick; panics=ignore; replay=no; uses=honest_column; timeout=900
#[cfg_attr(kani, kani::proof)]
#[cfg_attr(kani, kani::unwind(12))]
#[cfg_attr(kani, kani::stub(alloc::fmt::format, vs::fake_format))]
pub fn k_c29_validate2_rejects_second_periodic_step() {
    let mut col = honest_column(START, K0, K1);
    let per = col[2];
    let wrong = any_tiny();
    vs::assume(wrong != per);
    col[6] = wrong;
    let (a3, a7) = (col[3], col[7]);
    let trace = TraceTable::init(alloc::vec![col]);
    let air = MockAir2::new(trace.info().clone(), Pub2(START, K0, K1, per, a3, a7), options());
    trace.validate::<MockAir2, Tiny>(&air, None);
    vcheck!("C29.validate.accepted_trace_violating_second_step_of_periodic_assertion", false);
}

//# harness: fn=Trace::validate (violation only at the second step of a sequence assertion); label=bounded(F_17, mock AIR 2, trace length 8, cell 7 differs from the asserted value); tier=quick; panics=ignore; replay=no; uses=honest_column; timeout=900
#[cfg_attr(kani, kani::proof)]
#[cfg_attr(kani, kani::unwind(12))]
#[cfg_attr(kani, kani::stub(alloc::fmt::format, vs::fake_format))]
pub fn k_c29_validate2_rejects_second_sequence_step() {
    let mut col = honest_column(START, K0, K1);
    col[6] = col[2];
    let (per, a3) = (col[2], col[3]);
    let wrong = any_tiny();
    vs::assume(wrong != col[7]);
    let trace = TraceTable::init(alloc::vec![col]);
    // the AIR asserts `wrong` at step 7 while the trace holds something else there; nothing else is violated
    let air = MockAir2::new(trace.info().clone(), Pub2(START, K0, K1, per, a3, wrong), options());
    trace.validate::<MockAir2, Tiny>(&air, None);
    vcheck!("C29.validate.accepted_trace_violating_second_step_of_sequence_assertion", false);
}
