"""Shared plumbing: scratch copies of /repo, splicing, process running, evidence writing."""
import atexit
import hashlib
import json
import os
import re
import shutil
import signal
import subprocess
import sys
import tempfile
import time

VERIF = os.path.dirname(os.path.dirname(os.path.dirname(os.path.abspath(__file__))))
REPO = os.environ.get("VERIF_REPO", "/repo")
SCRATCH_ROOT = os.environ.get("VERIF_SCRATCH_ROOT", "/var/tmp")
JOBS = int(os.environ.get("VERIF_JOBS", "8"))

_scratch_dirs = []


def _cleanup():
    for d in _scratch_dirs:
        shutil.rmtree(d, ignore_errors=True)


atexit.register(_cleanup)


def _sig(signum, frame):
    _cleanup()
    sys.exit(2)


signal.signal(signal.SIGTERM, _sig)
signal.signal(signal.SIGINT, _sig)


def log(*a):
    print(*a, file=sys.stderr, flush=True)


def make_scratch(tag):
    """Copy /repo's current working tree (not its history, not its build output)."""
    d = tempfile.mkdtemp(prefix=f"wfv-{tag}-", dir=SCRATCH_ROOT)
    _scratch_dirs.append(d)
    subprocess.run(
        ["rsync", "-a", "--exclude", "/target", "--exclude", "/.git", REPO + "/", d + "/"],
        check=True,
    )
    # offline cargo
    os.makedirs(os.path.join(d, ".cargo"), exist_ok=True)
    with open(os.path.join(d, ".cargo", "config.toml"), "a") as f:
        f.write("\n[net]\noffline = true\n")
    return d


def drop_scratch(d):
    shutil.rmtree(d, ignore_errors=True)
    if d in _scratch_dirs:
        _scratch_dirs.remove(d)


def tree_hash(root=REPO):
    """Hash of all tracked-looking source files of the working tree (rs, toml)."""
    h = hashlib.sha256()
    for dp, dn, fn in os.walk(root):
        dn[:] = sorted(x for x in dn if x not in ("target", ".git"))
        for f in sorted(fn):
            if f.endswith((".rs", ".toml", ".lock")):
                p = os.path.join(dp, f)
                h.update(os.path.relpath(p, root).encode())
                with open(p, "rb") as fh:
                    h.update(fh.read())
    return h.hexdigest()[:16]


def run(cmd, cwd=None, timeout=None, env=None, mem_gb=None):
    """Run a command; returns (rc, output, seconds, timed_out)."""
    e = dict(os.environ)
    e["CARGO_NET_OFFLINE"] = "true"
    if env:
        e.update(env)
    pre = None
    if mem_gb:
        import resource

        def pre():
            os.setsid()
            lim = int(mem_gb * (1 << 30))
            resource.setrlimit(resource.RLIMIT_AS, (lim, lim))
    else:
        pre = os.setsid
    t0 = time.time()
    p = subprocess.Popen(
        cmd, cwd=cwd, env=e, stdout=subprocess.PIPE, stderr=subprocess.STDOUT, preexec_fn=pre,
        text=True, errors="replace",
    )
    try:
        out, _ = p.communicate(timeout=timeout)
        return p.returncode, out, time.time() - t0, False
    except subprocess.TimeoutExpired:
        try:
            os.killpg(p.pid, signal.SIGKILL)
        except ProcessLookupError:
            pass
        out, _ = p.communicate()
        return -9, out, time.time() - t0, True


def write_json(path, obj):
    os.makedirs(os.path.dirname(path), exist_ok=True)
    tmp = path + ".tmp"
    with open(tmp, "w") as f:
        json.dump(obj, f, indent=1, sort_keys=False)
        f.write("\n")
    os.replace(tmp, path)


def read_json(path, default=None):
    try:
        with open(path) as f:
            return json.load(f)
    except FileNotFoundError:
        return default


class Undecided(Exception):
    """Infrastructure outcome (lost anchor, compile error, limit): exit 2, never a VIOLATION."""
