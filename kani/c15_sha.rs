//# unit: c15_sha
//# crate: crypto
//# mount: crypto/src/hash/sha/mod.rs
//# modpath: hash::sha
//# props: C15 C17
//# subst: crypto/src/hash/sha/mod.rs | use sha3::Digest; | #[cfg(not(kani))] use sha3::Digest; #[cfg(kani)] use self::verif_c15_sha::model as sha3;
//! C15 / C17 — the SHA3-256 hasher hands exactly the documented byte layout to the primitive. The
//! `sha3` crate's `Sha3_256` (trait-method entry points `digest / new / update / finalize`, which
//! Kani cannot stub) is replaced under `cfg(kani)` by the recorder type `model::Sha3_256` through a
//! cfg-split of the `use sha3::Digest;` import: the primitive is trusted, its code is never entered.
#![allow(unused_imports, dead_code, static_mut_refs)]
use math::fields::{f128, f64 as g64};
use utils::{vcheck, vreach, verif_support as vs};

use super::*;

pub mod model {
    use utils::verif_support as vs;

    pub const CAP: usize = 96;
    pub static mut IN: [u8; CAP] = [0; CAP];
    pub static mut IN_LEN: usize = 0;
    /// order-sensitive running checksum of everything appended (for inputs longer than CAP)
    pub static mut SUM: u64 = 0;
    pub static mut CALLS: usize = 0;
    pub static mut OUT: [u8; 32] = [0; 32];

    pub fn append(bytes: &[u8]) {
        unsafe {
            let mut i = 0;
            while i < bytes.len() {
                if IN_LEN < CAP {
                    IN[IN_LEN] = bytes[i];
                }
                SUM = SUM.wrapping_mul(31).wrapping_add(bytes[i] as u64);
                IN_LEN += 1;
                i += 1;
            }
        }
    }
    fn finish() -> [u8; 32] {
        unsafe {
            CALLS += 1;
            OUT = vs::any_bytes::<32>();
            OUT
        }
    }
    /// recorder with the entry points of `sha3::Sha3_256` used by winterfell
    pub struct Sha3_256;
    impl Sha3_256 {
        pub fn digest<T: AsRef<[u8]>>(data: T) -> [u8; 32] {
            append(data.as_ref());
            finish()
        }
        pub fn new() -> Self {
            Sha3_256
        }
        pub fn update<T: AsRef<[u8]>>(&mut self, data: T) {
            append(data.as_ref());
        }
        pub fn finalize(self) -> [u8; 32] {
            finish()
        }
    }
}

fn rec_reset() {
    unsafe {
        model::IN_LEN = 0;
        model::SUM = 0;
        model::CALLS = 0;
    }
}
fn input_is(expected: &[u8]) -> bool {
    unsafe {
        if model::IN_LEN != expected.len() {
            return false;
        }
        let mut ok = true;
        let mut i = 0;
        while i < expected.len() {
            ok = ok && model::IN[i] == expected[i];
            i += 1;
        }
        ok
    }
}
fn one_call_with_output(d: &ByteDigest<32>) -> bool {
    unsafe { model::CALLS == 1 && d.0 == model::OUT }
}

type S = Sha3_256<g64::BaseElement>;

//# harness: fn=Sha3_256::hash, merge, merge_many, merge_with_int; label=bounded(hash input 5 bytes, merge_many of 3 digests; every byte, digest and integer); tier=quick; replay=no; timeout=400
#[cfg_attr(kani, kani::proof)]
#[cfg_attr(kani, kani::unwind(100))]
pub fn k_c15_sha3_layout() {
    rec_reset();
    let b: [u8; 5] = vs::any_bytes();
    let d = S::hash(&b);
    vcheck!("C15.sha3.hash.layout", input_is(&b) && one_call_with_output(&d));
    rec_reset();
    let (x, y, z) = (ByteDigest(vs::any_bytes::<32>()), ByteDigest(vs::any_bytes::<32>()), ByteDigest(vs::any_bytes::<32>()));
    let d = S::merge(&[x, y]);
    let mut cat = [0u8; 64];
    cat[..32].copy_from_slice(&x.0);
    cat[32..].copy_from_slice(&y.0);
    vcheck!("C15.sha3.merge.layout", input_is(&cat) && one_call_with_output(&d));
    rec_reset();
    let d = S::merge_many(&[x, y, z]);
    let mut cat3 = [0u8; 96];
    cat3[..64].copy_from_slice(&cat);
    cat3[64..].copy_from_slice(&z.0);
    vcheck!("C15.sha3.merge_many.layout", input_is(&cat3) && one_call_with_output(&d));
    rec_reset();
    let v = vs::any_u64();
    let d = S::merge_with_int(x, v);
    let mut si = [0u8; 40];
    si[..32].copy_from_slice(&x.0);
    si[32..].copy_from_slice(&v.to_le_bytes());
    vcheck!("C15.sha3.merge_with_int.layout", input_is(&si) && one_call_with_output(&d));
    vreach!("C15.sha3.reach");
}

//# harness: fn=Sha3_256::hash_elements (f64: serialized canonical integers; f128: IS_CANONICAL raw memory); label=bounded(2 elements; every element value); tier=quick; replay=no; timeout=600
#[cfg_attr(kani, kani::proof)]
#[cfg_attr(kani, kani::unwind(40))]
pub fn k_c15_sha3_hash_elements() {
    use math::{FieldElement, StarkField};
    rec_reset();
    let (a, b) = (vs::any_u64(), vs::any_u64());
    vs::assume(a < g64::BaseElement::MODULUS && b < g64::BaseElement::MODULUS);
    let e = [g64::BaseElement::from_mont(a), g64::BaseElement::from_mont(b)];
    let d = Sha3_256::<g64::BaseElement>::hash_elements(&e);
    let mut want = [0u8; 16];
    want[..8].copy_from_slice(&e[0].as_int().to_le_bytes());
    want[8..].copy_from_slice(&e[1].as_int().to_le_bytes());
    vcheck!("C15.sha3.hash_elements.f64.canonical_le_layout", input_is(&want) && one_call_with_output(&d));
    rec_reset();
    let (x, y) = (vs::any_u128(), vs::any_u128());
    let e = [f128::BaseElement::new(x), f128::BaseElement::new(y)];
    let d = Sha3_256::<f128::BaseElement>::hash_elements(&e);
    let mut want = [0u8; 32];
    want[..16].copy_from_slice(&e[0].as_int().to_le_bytes());
    want[16..].copy_from_slice(&e[1].as_int().to_le_bytes());
    vcheck!("C15.sha3.hash_elements.f128.raw_memory_is_canonical", input_is(&want) && one_call_with_output(&d));
    vreach!("C15.sha3.hash_elements.reach");
}

// hash_elements on a list longer than any internal batch of the implementation (65 elements, one more than a
// power of two): the bytes handed to the primitive are still exactly the concatenated canonical encodings. The
// elements are concrete (distinct Montgomery residues), so this is a closed obligation: length and an
// order-sensitive checksum of the recorded input against the same quantities of the expected encoding.
//# harness: fn=Sha3_256::hash_elements (f64, 65 elements); label=closed(65 fixed distinct f64 elements; input length and order-sensitive checksum); tier=quick; replay=no; timeout=900
#[cfg_attr(kani, kani::proof)]
#[cfg_attr(kani, kani::unwind(600))]
pub fn k_c15_sha3_hash_elements_long() {
    use math::{FieldElement, StarkField};
    rec_reset();
    let mut e = [g64::BaseElement::ZERO; 65];
    let mut i = 0;
    while i < 65 {
        e[i] = g64::BaseElement::from_mont(0x0123_4567_89ab_cdef_u64.wrapping_mul(i as u64 + 1) >> 1);
        i += 1;
    }
    let d = Sha3_256::<g64::BaseElement>::hash_elements(&e);
    let mut sum = 0u64;
    let mut i = 0;
    while i < 65 {
        let b = e[i].as_int().to_le_bytes();
        let mut j = 0;
        while j < 8 {
            sum = sum.wrapping_mul(31).wrapping_add(b[j] as u64);
            j += 1;
        }
        i += 1;
    }
    vcheck!("C15.sha3.hash_elements.f64.long_list_layout",
        unsafe { model::IN_LEN == 65 * 8 && model::SUM == sum } && one_call_with_output(&d));
    vreach!("C15.sha3.hash_elements_long.reach");
}
