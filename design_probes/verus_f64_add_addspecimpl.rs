use vstd::prelude::*;
use vstd::std_specs::ops::*;
verus! {
const M: u64 = 0xffffffff00000001;

pub assume_specification[ u64::overflowing_sub ](a: u64, b: u64) -> (r: (u64, bool))
    ensures r.0 as int == (a as int - b as int) % 0x1_0000_0000_0000_0000,
            r.1 == ((a as int) < (b as int));

pub struct BaseElement(pub u64);
impl Copy for BaseElement {}
impl Clone for BaseElement { fn clone(&self) -> Self { *self } }

pub open spec fn P() -> int { 0xffffffff00000001 }

impl AddSpecImpl<BaseElement> for BaseElement {
    open spec fn obeys_add_spec() -> bool { false }
    open spec fn add_req(self, rhs: BaseElement) -> bool { (self.0 as int) < P() && (rhs.0 as int) < P() }
    open spec fn add_spec(self, rhs: BaseElement) -> BaseElement { arbitrary() }
}

impl core::ops::Add for BaseElement {
    type Output = Self;

    #[inline]
    #[allow(clippy::suspicious_arithmetic_impl)]
    fn add(self, rhs: Self) -> (r: Self)
        ensures (r.0 as int) < P(), r.0 as int == (self.0 as int + rhs.0 as int) % P(),
    {
        // We compute a + b = a - (p - b).
        let (x1, c1) = self.0.overflowing_sub(M - rhs.0);
        let adj = 0u32.wrapping_sub(c1 as u32);
        Self(x1.wrapping_sub(adj as u64))
    }
}

fn user(a: BaseElement, b: BaseElement) -> (r: BaseElement)
    requires a.0 < M, b.0 < M
    ensures r.0 < M
{
    a + b
}
}
fn main(){}
